"""
Input alphabets (DESIGN.md section 4).  Everything is instantiated *per position* (names a, b, c, d;
prose "the a"/"the b"; defaults 5/6/7, "foo_a"/"foo_b") so a swap between parameters is observable.

An *atom* is (typ, default-template, prose-template).  ``ABSENT`` marks a missing field.
"""
import itertools
from collections import OrderedDict

from mc import core

ABSENT = "<absent>"
NONE_STR = "```(None)```"
NAMES = ["a", "b", "c", "d"]

# (typ, [default templates]); default templates are tagged tuples resolved per position
TYPES_DEFAULTS = [
    (ABSENT, [ABSENT, ("int", 5), ("int", -3), ("float", 0.5), ("float", 2.0), ("bool", True), ("str", "foo"),
              ("code", "np.empty({i})")]),
    ("str", [ABSENT, ("str", "foo"), ("str", ""), ("str", "two words"), ("str", "3"), ("str", "a.b")]),
    ("int", [ABSENT, ("int", 5), ("int", 0), ("int", -3)]),
    ("float", [ABSENT, ("float", 0.5), ("float", -1.5), ("float", 2.0), ("float", 1e-07), ("float", 1.0), ("float", 0.0)]),
    ("bool", [ABSENT, ("bool", True), ("bool", False)]),
    ("Optional[str]", [ABSENT, ("none",), ("str", "foo")]),
    ("Optional[int]", [ABSENT, ("none",), ("int", 5), ("int", 0)]),
    ("Optional[float]", [ABSENT, ("none",), ("float", 2.0), ("float", -1.5)]),
    ("List[str]", [ABSENT, ("code", "['x', 'y{i}']"), ("code", "[]")]),
    ("List[int]", [ABSENT, ("code", "[1, {i}]")]),
    ("Literal['x', 'y']", [ABSENT, ("strlit", "x")]),
    ("Literal[1, 2]", [ABSENT, ("intlit", 1)]),
    ("Union[int, str]", [ABSENT, ("int", 5), ("str", "foo")]),
    ("Optional[Union[int, str]]", [ABSENT, ("none",), ("str", "3"), ("int", 5)]),
    ("Optional[Literal['x', 'y']]", [ABSENT, ("strlit", "x")]),
    ("Tuple[int, str]", [ABSENT, ("code", "({i}, 'x')")]),
    ("np.ndarray", [ABSENT, ("code", "np.empty({i})")]),
]

LONG = ("a deliberately long description of {n} that runs well past the configured line width so that wrapping, "
        "when it is enabled, has to break it into several lines of text")
LONG_RET = ("a deliberately long description of the result that runs well past the configured line width so that "
            "wrapping, when it is enabled, has to break it into several lines of text")

PROSE = [
    ABSENT,
    "the {n}",
    "the {n}.",
    "uses 3.5 units, e.g. `x{n}`",
    "the default behaviour of {n}",
    "first sentence of {n}. second (see notes) sentence",
    LONG,
    "Optional label for {n}",
]

A_FULL = [(t, d, p) for t, ds in TYPES_DEFAULTS for d in ds for p in PROSE]

A_RED = [
    ("int", ("int", 5), "the {n}"),
    ("int", ABSENT, "the {n}"),
    ("str", ("str", "foo"), "the {n}"),
    ("float", ("float", -1.5), "the {n}."),
    ("bool", ("bool", True), "the {n}"),
    ("Optional[int]", ("none",), "the {n}"),
    ("List[str]", ABSENT, "the {n}"),
    ("Literal['x', 'y']", ("strlit", "x"), "the {n}"),
    (ABSENT, ABSENT, "the {n}"),
    ("int", ("int", 5), ABSENT),
    ("np.ndarray", ("code", "np.empty({i})"), "the {n}"),
    ("Union[int, str]", ("str", "foo"), "uses 3.5 units, e.g. `x{n}`"),
    ("str", ("str", "foo"), LONG),
]

# return entries: (typ, prose, default)
RETURNS = [
    None,
    ("int", ABSENT, ABSENT),
    (ABSENT, "the result", ABSENT),
    ("int", "the result", ABSENT),
    ("int", "the result", ("code", "a + 1")),
    ("Tuple[int, str]", "the result.", ("code", "(1, 'x')")),
    ("int", LONG_RET, ("code", "a + 1")),
    ("int", ABSENT, ("code", "a + 1")),
    ("Optional[int]", "the result", ("none",)),
]
RETURNS_RED = [RETURNS[0], RETURNS[3], RETURNS[5]]

KWARGS = [False, True]
SUMMARIES = ["Summary line", "First line of summary\nsecond line of it", "Summary that ends with a full stop."]


def resolve_default(d, pos):
    """Default template -> IR value for position ``pos`` (0-based)."""
    if d == ABSENT:
        return ABSENT
    tag = d[0]
    if tag == "none":
        return NONE_STR
    v = d[1]
    if tag == "int":
        return v if v in (0, 1) else (v + pos if v > 0 else v - pos)
    if tag == "float":
        return v if v in (2.0, 1e-07, 1.0, 0.0) else (v + pos if v > 0 else v - pos)
    if tag == "bool":
        return v
    if tag == "str":
        return v if v in ("", "3", "a.b", "None", QUOTE_EDGE_STR) else ("%s_%s" % (v, NAMES[pos])).replace("two words_", "two words ")
    if tag in ("strlit", "intlit"):
        return v
    if tag == "code":
        return "```%s```" % v.format(i=pos)
    raise ValueError(d)


def default_kind(d):
    if d == ABSENT:
        return "absent"
    tag = d[0]
    if tag == "none":
        return "none"
    v = d[1]
    if tag == "int":
        return "int<0" if v < 0 else ("int0" if v == 0 else ("int1" if v == 1 else "int>0"))
    if tag == "float":
        return "float<0" if v < 0 else ("float_exp" if v == 1e-07 else ("float_like_bool" if v in (0.0, 1.0) else "float"))
    if tag == "str" and v == QUOTE_EDGE_STR:
        return "str_quote_edges"
    if tag == "str" and v == "None":
        return "str_None"
    if tag == "str":
        return {"": "str_empty", "two words": "str_space", "3": "str_digit", "a.b": "str_dot"}.get(v, "str")
    if tag == "code":
        return "code_dotted" if "np." in v else ("code_empty" if v == "[]" else "code")
    if tag == "strlit" and v != "x":
        return {"": "strlit_empty", "1": "strlit_digit", "None": "strlit_None", "x[": "strlit_bracket"}[v]
    if tag == "intlit" and v != 1:
        return "intlit0" if v == 0 else "intlit<0"
    return tag


def prose_kind(p):
    if p.startswith("word "):
        return "sweep%d" % len(p)
    if p.startswith("'"):
        return "quote_edges"
    return {ABSENT: "absent", "the {n}": "plain", "the {n}.": "stop", "uses 3.5 units, e.g. `x{n}`": "tricky",
            "the default behaviour of {n}": "word_default",
            "first sentence of {n}. second (see notes) sentence": "two_sentences", "the result": "plain",
            "the result.": "stop", LONG: "long", LONG_RET: "long", "Optional label for {n}": "starts_optional"}[p]


def make_param(atom, pos):
    typ, d, p = atom
    out = {}
    if p != ABSENT:
        out["doc"] = p.format(n=NAMES[pos])
    if typ != ABSENT:
        out["typ"] = typ
    dv = resolve_default(d, pos)
    if dv != ABSENT:
        out["default"] = dv
    return out


def make_ir(atoms, ret=None, kwargs=False, summary=0):
    """Build an IR dict (fresh objects) from atom list, return entry, kwargs flag, summary index."""
    params = OrderedDict()
    for pos, atom in enumerate(atoms):
        params[NAMES[pos]] = make_param(atom, pos)
    if kwargs:
        params["kwargs"] = {"doc": "extra keyword arguments", "typ": "Optional[dict]", "default": NONE_STR}
    returns = None
    if ret is not None:
        typ, p, d = ret
        r = {}
        if p != ABSENT:
            r["doc"] = p
        if typ != ABSENT:
            r["typ"] = typ
        if d != ABSENT:
            r["default"] = resolve_default(d, 0)
        returns = OrderedDict((("return_type", r),))
    return {"name": None, "type": "static", "doc": SUMMARIES[summary] if isinstance(summary, int) else summary,
            "params": params, "returns": returns}


def atom_facts(atom, prefix="p."):
    typ, d, p = atom
    return {prefix + "typ": typ, prefix + "default": default_kind(d), prefix + "prose": prose_kind(p)}


def shape_code(atoms, ret, kwargs):
    """Compact, order-preserving description of a case's structure (used in case-level facts)."""
    def one(a):
        t, d, p = a
        return "%s/%s/%s" % (t if t != ABSENT else "-", default_kind(d) if d != ABSENT else "-",
                             prose_kind(p) if p != ABSENT else "-")
    s = "|".join(one(a) for a in atoms)
    if kwargs:
        s += "|**"
    if ret is not None:
        s += "|->" + one((ret[0], ret[2], ret[1]))
    return s


# ----------------------------------------------------------------------------- IR spaces
class IRSpace(core.Space):
    """Sequences of atoms (exact lengths) x returns x kwargs x summaries.  Index order: shorter first."""

    def __init__(self, alphabet, lengths, returns, kwargs=KWARGS, summaries=(0,)):
        self.alphabet, self.returns, self.kwargs, self.summaries = alphabet, list(returns), list(kwargs), list(summaries)
        self.parts = []
        n = 0
        for L in lengths:
            size = (len(alphabet) ** L) * len(self.returns) * len(self.kwargs) * len(self.summaries)
            self.parts.append((n, L, size))
            n += size
        self.n = n

    def __len__(self):
        return self.n

    def __getitem__(self, i):
        if not 0 <= i < self.n:
            raise IndexError(i)
        for off, L, size in reversed(self.parts):
            if i >= off:
                j = i - off
                break
        j, s = divmod(j, len(self.summaries))
        j, k = divmod(j, len(self.kwargs))
        j, r = divmod(j, len(self.returns))
        idxs = []
        for _ in range(L):
            j, a = divmod(j, len(self.alphabet))
            idxs.append(a)
        idxs.reverse()
        return {"atoms": [self.alphabet[a] for a in idxs], "ret": self.returns[r], "kwargs": self.kwargs[k],
                "summary": self.summaries[s]}

    def describe(self):
        return {"alphabet": len(self.alphabet), "lengths": [p[1] for p in self.parts], "returns": len(self.returns),
                "kwargs": len(self.kwargs), "summaries": len(self.summaries), "size": self.n}


def S_A():
    return IRSpace(A_FULL, (0, 1), RETURNS, KWARGS, (0, 1, 2))


def S_B(lengths=(2, 3)):
    return IRSpace(A_RED, lengths, RETURNS_RED, KWARGS, (0,))


# chain space: the reduced atoms plus falsy explicit defaults (zero-like values are where hops lose information)
A_CHAIN = A_RED + [
    ("Optional[int]", ("int", 0), "the {n}"),
    ("bool", ("bool", False), "the {n}"),
    ("Optional[str]", ("str", "3"), "the {n}"),
    ("Optional[Union[int, str]]", ("str", "3"), "the {n}"),
]


# collision space: values that compare equal across Python types (0 == False == 0.0, 1 == True == 1.0), falsy Literal
# members, digit-like strings on non-scalar types, and a typed entry with neither prose nor default - every ordered
# pair / triple of them inside one interface
A_COLL = [
    ("int", ("int", 0), "the {n}"),
    ("bool", ("bool", False), "the {n}"),
    ("float", ("float", 0.0), "the {n}"),
    ("int", ("int", 1), "the {n}"),
    ("bool", ("bool", True), "the {n}"),
    ("float", ("float", 1.0), "the {n}"),
    ("str", ("str", ""), "the {n}"),
    ("Literal[0, 1]", ("intlit", 0), "the {n}"),
    ("Literal['', 'x']", ("strlit", ""), "the {n}"),
    ("Literal['1', '2']", ("strlit", "1"), "the {n}"),
    ("Optional[str]", ("str", "3"), "the {n}"),
    ("int", ABSENT, ABSENT),
    ("Literal[-1, 0, 1]", ("intlit", -1), "the {n}"),
    ("str", ("str", "None"), "the {n}"),
    ("Literal['None', 'x']", ("strlit", "None"), "the {n}"),
    ("Literal['x[', 'y[']", ("strlit", "x["), "the {n}"),
    ("Optional[Union[int, str]]", ("str", "3"), "the {n}"),
]


def S_D(lengths=(2,)):
    return IRSpace(A_COLL, lengths, [None], [False], (0,))


# ----------------------------------------------------------------------------- sweep space
def words(n, tag="w"):
    """Deterministic prose of exactly n characters made of short words (no full stops, braces or section tokens)."""
    out = ["word"]
    i = 0
    while len(" ".join(out)) < n:
        i += 1
        out.append("%s%d" % (tag, i) if i % 3 else "word")
    s = " ".join(out)[:n]
    return s[:-1] + "x" if s.endswith(" ") else s


QUOTE_EDGE_STR = "'a' or \"b\""
QUOTE_EDGE_PROSE = "'{n}' selects what is called \"default\""
QUOTE_EDGE_SUMMARY = "'Quoted' at the start and at the end \"quoted\""
SWEEP_LENGTHS = list(range(60, 136)) + list(range(150, 261, 10))


def S_W():
    """Length sweeps (a wrap point moves across every position of a text) and texts whose first and last characters
    are quote marks.  Listed explicitly; the same case format as IRSpace."""
    second = ("str", ("str", "foo"), "the {n}")
    cases = []
    for n in SWEEP_LENGTHS:
        for ret in (None, RETURNS[4]):
            cases.append({"atoms": [("int", ("int", 5), words(n)), second], "ret": ret, "kwargs": False, "summary": 0})
    for n in SWEEP_LENGTHS[::3]:
        cases.append({"atoms": [A_RED[0]], "ret": ("int", words(n, "r"), ("code", "a + 1")), "kwargs": False, "summary": 0})
        cases.append({"atoms": [A_RED[0]], "ret": ("int", words(n, "r"), ABSENT), "kwargs": False, "summary": 0})
    for n in range(80, 111):
        cases.append({"atoms": [A_RED[0]], "ret": None, "kwargs": False, "summary": "First line of the summary\n" + words(n, "s")})
    members = ["int", "float", "complex", "str", "bytes", "bool", "bytearray", "memoryview", "range", "slice", "object", "frozenset",
               "Exception", "BaseException", "NotImplementedError"]
    for k in range(9, len(members) + 1):  # a type of 72..140 characters: its :type line wraps
        t = "Union[%s]" % ", ".join(members[:k])
        cases.append({"atoms": [(t, ("int", 5), "the {n}"), second], "ret": None, "kwargs": False, "summary": 0})
        cases.append({"atoms": [A_RED[0]], "ret": (t, "the result", ABSENT), "kwargs": False, "summary": 0})
    qa = ("str", ("str", QUOTE_EDGE_STR), QUOTE_EDGE_PROSE)
    cases.append({"atoms": [qa], "ret": None, "kwargs": False, "summary": QUOTE_EDGE_SUMMARY})
    cases.append({"atoms": [A_RED[0], qa], "ret": RETURNS[4], "kwargs": False, "summary": 0})
    cases.append({"atoms": [("str", ("str", "foo"), QUOTE_EDGE_PROSE)], "ret": None, "kwargs": False, "summary": 0})
    cases.append({"atoms": [A_RED[0]], "ret": None, "kwargs": False, "summary": QUOTE_EDGE_SUMMARY})
    return core.Listed(cases, note="length sweeps of parameter prose, return prose and a summary line; quote-edged texts")


def S_C():
    return IRSpace(A_CHAIN, (0, 1, 2), RETURNS_RED, KWARGS, (0,))


def ir_space(tier, with_b4=False):
    if tier == "thorough" and with_b4:
        return core.Concat(S_A(), S_B((2, 3, 4)), S_D((2, 3)), S_W())
    return core.Concat(S_A(), S_B(), S_D((2, 3) if tier == "thorough" else (2,)), S_W())


def case_ir(case):
    atoms = [tuple(tuple(x) if isinstance(x, list) else x for x in a) for a in case["atoms"]]
    ret = case["ret"]
    if ret is not None:
        ret = tuple(tuple(x) if isinstance(x, list) else x for x in ret)
    return atoms, ret, make_ir(atoms, ret, case["kwargs"], case["summary"])
