"""
Developer-only tool (never invoked by a registered check command):

    python -m mc.baseline C01 [--tiers quick,thorough] [--show N]

Runs the check on the current /repo tree, attributes every failing (site facts, observation) group to the
first *known finding* of known_findings.json whose ``match`` pattern covers it, and writes the exact
extension (group hashes per finding) to known/<ID>.json.  Groups that no finding covers are printed and
nothing is written: every recorded group must belong to a finding that was confirmed as a genuine defect.
"""
import argparse
import json
import os
import subprocess
import sys
import tempfile
from collections import Counter

from mc import core


def main():
    ap = argparse.ArgumentParser()
    ap.add_argument("prop")
    ap.add_argument("--tiers", default="quick,thorough")
    ap.add_argument("--show", type=int, default=15)
    ap.add_argument("--keys", default="")
    ap.add_argument("--write-partial", action="store_true", help="write the extension although not both tiers were run")
    a = ap.parse_args()
    pid = a.prop.upper()
    findings = [f for f in core.load_findings(pid) if f.get("status") == "known"]
    groups = {}
    per_tier = {}
    for tier in a.tiers.split(","):
        fd, tmp = tempfile.mkstemp(suffix=".json")
        os.close(fd)
        env = dict(os.environ, VERIF_COLLECT=tmp)
        env.pop("VERIF_DUMP", None)
        r = subprocess.run([os.path.join(core.HOME, "vcheck"), pid, "--tier", tier], env=env,
                           stdout=subprocess.PIPE, stderr=subprocess.STDOUT, text=True)
        if r.returncode == 2:
            print(r.stdout[-3000:])
            sys.exit("harness error in %s tier" % tier)
        try:
            data = json.load(open(tmp))
        finally:
            os.unlink(tmp)
        per_tier[tier] = len(data)
        for c, i, fa, ob in data:
            h = core.group_hash(fa, ob)
            if h not in groups:
                groups[h] = (c, i, fa, ob, tier)
        print("%s %s: %d failing groups" % (pid, tier, len(data)))
    attributed = {f["id"]: [] for f in findings}
    unattributed = []
    for h, (c, i, fa, ob, tier) in groups.items():
        for f in findings:
            if core.match_pattern(f["match"], fa, ob):
                attributed[f["id"]].append(h)
                break
        else:
            unattributed.append((c, i, fa, ob, tier))
    for f in findings:
        print("  %-10s %6d groups  %s" % (f["id"], len(attributed[f["id"]]), f["title"]))
    if unattributed:
        print("UNATTRIBUTED groups: %d" % len(unattributed))
        keys = a.keys.split(",") if a.keys else None
        if keys:
            cnt = Counter()
            ex = {}
            for c, i, fa, ob, tier in unattributed:
                k = tuple(str(ob.get(x, fa.get(x, "-"))) for x in keys)
                cnt[k] += c
                ex.setdefault(k, (i, tier))
            for k, n in cnt.most_common(a.show * 4):
                print("   %6d  %s  ex=%s" % (n, dict(zip(keys, k)), ex[k]))
        else:
            unattributed.sort(key=lambda t: t[1])
            for c, i, fa, ob, tier in unattributed[: a.show]:
                print("   idx=%d tier=%s x%d\n      facts=%s\n      obs=%s" % (i, tier, c, core.jkey(fa), core.jkey(ob)))
        sys.exit(1)
    if set(a.tiers.split(",")) != {"quick", "thorough"} and not a.write_partial:
        print("not writing known/%s.json: only tier(s) %s were run (use both tiers, or --write-partial)" % (pid, a.tiers))
        return
    out = {"property": pid, "generated_by": "mc.baseline (developer tool; checks never write this file)",
           "groups_per_tier": per_tier,
           "groups": {fid: "".join(sorted(hs)) for fid, hs in attributed.items() if hs}}
    os.makedirs(os.path.join(core.HOME, "known"), exist_ok=True)
    with open(os.path.join(core.HOME, "known", "%s.json" % pid), "w") as f:
        json.dump(out, f, indent=0, sort_keys=True)
    print("wrote known/%s.json (%d groups)" % (pid, len(groups)))


if __name__ == "__main__":
    main()
