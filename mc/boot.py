"""
Worker bootstrap: import doctrans from /repo's *current working tree* and nothing else.

* sys.path[0] = REPO so the working tree wins over any installed copy;
* the third-party ``meta`` package fails on its first import under CPython 3.12
  (KeyError: 'JUMP_IF_FALSE_OR_POP') and succeeds on the second; doctrans.conformance
  imports it, so perform the same "first import may fail" dance the repository's own test-suite
  relies on. Harmless when ``meta`` imports cleanly or is no longer used.
"""
import io
import logging
import os
import sys

REPO = os.environ.get("VERIF_REPO", "/repo")
VERIF_HOME = os.environ.get("VERIF_HOME", os.path.dirname(os.path.dirname(os.path.abspath(__file__))))

_booted = False


def boot(need_cli=False):
    """Import doctrans from REPO; return the package."""
    global _booted
    if sys.path[0] != REPO:
        sys.path.insert(0, REPO)
    sys.dont_write_bytecode = True
    if need_cli or not _booted:
        try:
            import meta.asttools  # noqa: F401
        except Exception:
            pass
    import doctrans

    here = os.path.realpath(os.path.dirname(doctrans.__file__))
    assert here.startswith(os.path.realpath(REPO) + os.sep), (
        "doctrans imported from %r, not from %r" % (here, REPO)
    )
    if not _booted:
        logging.disable(logging.CRITICAL)
    _booted = True
    return doctrans


class quiet(object):
    """Context manager capturing stdout/stderr text written by doctrans (print calls)."""

    def __enter__(self):
        self._o, self._e = sys.stdout, sys.stderr
        self.out = io.StringIO()
        self.err = io.StringIO()
        sys.stdout, sys.stderr = self.out, self.err
        return self

    def __exit__(self, *a):
        sys.stdout, sys.stderr = self._o, self._e
        return False
