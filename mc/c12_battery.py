"""
Conversion battery for C12 (run as a script in a fresh interpreter per configuration, and imported by the
call-history explorer).  Prints one line per conversion:  <id>\t<sha of output>\t<short order signature>.

Every conversion is deterministic input -> text; the battery contains the shapes whose result could depend on
set-iteration order (partially documented functions with 2..4 undocumented parameters, class + __init__
merges) and one conversion per emitter / parser / gen.
"""
import ast
import hashlib
import itertools
import json
import os
import sys
import tempfile

REPO = os.environ.get("VERIF_REPO", "/repo")


def partially_documented(names_documented, names_undocumented, style="rest", kwonly=False):
    allp = list(names_documented) + list(names_undocumented)
    sig = ", ".join("%s=%d" % (n, i) for i, n in enumerate(allp))
    if kwonly:
        sig = "*, " + sig
    if style == "rest":
        doc = "\n".join("    :param %s: the %s" % (n, n) for n in names_documented)
    elif style == "numpydoc":
        doc = "    Parameters\n    ----------\n" + "\n".join("    %s : int\n        the %s" % (n, n) for n in names_documented)
    else:
        doc = "    Args:\n" + "\n".join("      %s (int): the %s" % (n, n) for n in names_documented)
    return 'def f(%s):\n    """\n    Summary\n\n%s\n    """\n    return 1\n' % (sig, doc)


def class_with_init(doc_names, init_names):
    doc = "\n".join("    :cvar %s: the %s" % (n, n) for n in doc_names)
    sig = ", ".join("%s=%d" % (n, i) for i, n in enumerate(init_names))
    return ('class K(object):\n    """\n    Summary\n\n%s\n    """\n\n    def __init__(self, %s):\n        """\n        init\n'
            '        """\n        pass\n' % (doc, sig))


def canon(ir):
    def one(p):
        return [[k, repr(v) if not isinstance(v, ast.AST) else ast.dump(v)] for k, v in sorted(p.items())]

    return json.dumps({"name": ir.get("name"), "type": ir.get("type"), "doc": ir.get("doc"),
                       "params": [[n, one(p)] for n, p in (ir.get("params") or {}).items()],
                       "returns": None if not ir.get("returns") else [[n, one(p)] for n, p in ir["returns"].items()]})


def conversions(k_max=3, with_gen=True):
    """Yield (id, thunk) pairs.  Thunks import doctrans lazily."""
    out = []
    pools = {2: ["p", "q"], 3: ["alpha", "b", "zeta"], 4: ["w", "x", "y", "z"]}
    for k in range(2, k_max + 1):
        und = pools[k]
        for style in ("rest", "numpydoc", "google"):
            for kwonly in (False, True):
                src = partially_documented(["doc1"], und, style, kwonly)
                out.append(("parse.function/%s/k%d/kw%d" % (style, k, kwonly), ("parse_function", src)))
        out.append(("parse.function->emit.class/k%d" % k, ("parse_function_emit_class", partially_documented(["doc1"], und))))
        out.append(("parse.class+init/k%d" % k, ("parse_class_init", class_with_init(["doc1"], ["doc1"] + und))))
        out.append(("parse.class+init->emit.function/k%d" % k, ("parse_class_init_emit_function", class_with_init([], und))))
    full = partially_documented(["a", "b", "c"], [])
    out.append(("parse.function/full", ("parse_function", full)))
    # a conversion that fails half-way (inside a def block) and is caught by the caller: later conversions must not notice
    out.append(("to_code/fails_inside_def", ("to_code_too_deep", 700)))
    for kind in ("class", "function", "argparse", "rest", "numpydoc", "google"):
        out.append(("emit.%s" % kind, ("emit", kind)))
    out.append(("parse.docstring/numpydoc_defaults", ("parse_docstring",
                "\nSummary\n\n\nParameters\n----------\na : int\n    the a. Defaults to 5\nb : str\n    the b\n\nReturns\n-------\nint\n    the result\n\n")))
    out.append(("parse.docstring/google", ("parse_docstring", "Summary\nArgs:\n  a (int): the a. Defaults to 5\n  b (str): the b\n")))
    out.append(("parse.docstring/two_announcements", ("parse_docstring",
                "Summary\n\n:param shuffle: Whether to shuffle. Default: True for map-style data. With streaming data this "
                "defaults to False.\n:type shuffle: ```bool```\n")))
    out.append(("parse.docstring/google_trailing_section", ("parse_docstring",
                "Summary\nArgs:\n  a (int): the a. Defaults to 5\n  b (str): the b\nRaises:\n  ValueError: when a is negative\nExample:\n  >>> f(1)\n")))
    out.append(("parse.docstring/numpydoc_trailing_section", ("parse_docstring",
                "\nSummary\n\n\nParameters\n----------\na : int\n    the a\nb : str\n    the b\n\nNotes\n-----\nsome notes here\n")))
    out.append(("parse.function/google_trailing_section->emit.class", ("parse_function_emit_class",
                'def f(a=1, b=2):\n    """Summary\n    Args:\n      a (int): the a\n      b (int): the b\n    Example:\n      >>> f()\n    """\n    return a\n')))
    # a parse that raises after it has seen a defaulted parameter, and a parse whose first parameter has no default:
    # state left behind by the failed call must not leak into the next one
    out.append(("parse.docstring/numpydoc_raises_after_default", ("parse_docstring",
                "\nSummary\n\n\nParameters\n----------\na : int\n    the a. Defaults to 5\n\nReturns\n-------\nint\n\n")))
    out.append(("parse.docstring/google_leading_no_default", ("parse_docstring",
                "Summary\nArgs:\n  limit (int): the limit\n  b (str): the b. Defaults to \"x\"\n")))
    out.append(("parse.docstring/numpydoc_leading_no_default", ("parse_docstring",
                "\nSummary\n\n\nParameters\n----------\nlimit : int\n    the limit\nb : str\n    the b. Defaults to \"x\"\n\n")))
    # a Literal that lists a member twice (de-duplication must not go through an unordered set)
    out.append(("emit.argparse/literal_duplicate_member", ("emit_dup_literal", None)))
    # definitions whose docstring is present but empty
    out.append(("parse.class/empty_docstring", ("parse_class_plain", 'class E1(object):\n    """"""\n    alpha: int = 1\n    beta: str = "b"\n')))
    out.append(("parse.function/empty_docstring", ("parse_function", 'def e2(gamma=3, delta=4):\n    """   """\n    return gamma\n')))
    # emitters called with different return entries one after the other
    out.append(("emit.argparse/return_with_prose", ("emit_ret", ("argparse", "prose"))))
    out.append(("emit.argparse/return_default_no_prose", ("emit_ret", ("argparse", "noprose"))))
    out.append(("emit.function/return_default_no_prose", ("emit_ret", ("function", "noprose"))))
    # docstrings that document only the return value (no parameter section at all)
    out.append(("parse.docstring/numpydoc_returns_only", ("parse_docstring", "\nCount the items\n\nReturns\n-------\nint\n    the number of items\n")))
    out.append(("parse.docstring/google_returns_only", ("parse_docstring", "Count the items\n\nReturns:\n  int: the number of items\n")))
    out.append(("parse.function/numpydoc_returns_only->emit.class", ("parse_function_emit_class",
                'def count_items():\n    """\n    Count the items\n\n    Returns\n    -------\n    int\n        the number of items\n    """\n')))
    # several parameters whose names end in 'kwargs': which one becomes **kwargs must not depend on set order
    out.append(("parse.class->emit.function/multi_kwargs", ("parse_class_emit_function", MULTI_KWARGS_SRC)))
    # a type that holds two Literals: the order of the derived choices must not depend on set order
    out.append(("emit.argparse/union_of_literals", ("emit_union_literals", None)))
    # a live function object (in-memory path): return annotation, ':returns:' without ':rtype:', body ending in 'return None'
    out.append(("parse.function(live)/returns_without_rtype->emit.rest", ("parse_live_emit_rest", LIVE_SRC)))
    out.append(("parse.class(live)+init->emit.class", ("parse_live_class_emit_class", LIVE_SRC)))
    out += twin_conversions()
    if with_gen:
        out.append(("gen/class+prepend_import", ("gen", "class")))
        out.append(("gen/function", ("gen", "function")))
    return out


# ----------------------------------------------------------------------------- twin family
# Two interfaces that share every parameter name and type name (incl. the non-builtin type ``Path``) but differ in
# defaults, prose and return entry; each in all seven kinds, as parse input (hand-written) and as emit input (IR).
# Anything the library remembers under a name / type / phrase from one of them shows in the other.
TWIN_SRC = {
    ("function", "A"): ('def load(destination: Path, mode: Literal[\'r\', \'w\'] = \'r\', retries: int = 0):\n    """\n    Load things\n\n'
                        '    :param destination: where to load from\n\n    :param mode: how to open\n\n    :param retries: how often\n    """\n'
                        '    return [retries, mode]\n'),
    ("function", "B"): ('def load(destination: Path = None, mode: Literal[\'r\', \'w\'] = \'w\', retries: int = 3) -> Optional[dict]:\n    """\n    Load other things\n\n'
                        '    :param destination: where to store to\n\n    :param mode: how to write\n\n    :param retries: attempts\n    """\n'),
    ("class", "A"): ('class Loader(object):\n    """\n    Load things\n\n    :cvar destination: where to load from\n    :cvar mode: how to open\n'
                     '    :cvar retries: how often"""\n    destination: Path = None\n    mode: Literal[\'r\', \'w\'] = \'r\'\n    retries: int = 0\n'),
    ("class", "B"): ('class Loader(object):\n    """\n    Load other things\n\n    :cvar destination: where to store to\n    :cvar mode: how to write\n'
                     '    :cvar retries: attempts\n    :cvar return_type: the state"""\n    destination: Path = Path(\'.\')\n    mode: Literal[\'r\', \'w\'] = \'w\'\n'
                     '    retries: int = 3\n    return_type: Optional[dict] = None\n'),
    ("argparse", "A"): ('def set_cli_args(argument_parser):\n    """\n    Set CLI arguments\n\n    :param argument_parser: argument parser\n'
                        '    :type argument_parser: ```ArgumentParser```\n\n    :returns: argument_parser\n    :rtype: ```ArgumentParser```\n    """\n'
                        '    argument_parser.description = \'Load things\'\n'
                        '    argument_parser.add_argument(\'--destination\', type=Path, help=\'where to load from\', required=True)\n'
                        '    argument_parser.add_argument(\'--mode\', choices=(\'r\', \'w\'), help=\'how to open\', required=True, default=\'r\')\n'
                        '    argument_parser.add_argument(\'--retries\', type=int, help=\'how often\', required=True, default=0)\n'
                        '    return argument_parser\n'),
    ("argparse", "B"): ('def set_cli_args(argument_parser):\n    """\n    Set CLI arguments\n\n    :param argument_parser: argument parser\n'
                        '    :type argument_parser: ```ArgumentParser```\n\n    :returns: argument_parser, the state\n    :rtype: ```Tuple[ArgumentParser, Optional[dict]]```\n    """\n'
                        '    argument_parser.description = \'Load other things\'\n'
                        '    argument_parser.add_argument(\'--destination\', type=Path, help=\'where to store to\')\n'
                        '    argument_parser.add_argument(\'--mode\', choices=(\'r\', \'w\'), help=\'how to write\', required=True, default=\'w\')\n'
                        '    argument_parser.add_argument(\'--retries\', type=int, help=\'attempts\', required=True, default=3)\n'
                        '    return argument_parser, None\n'),
    ("rest", "A"): ('\nLoad things\n\n:param destination: where to load from\n:type destination: ```Path```\n\n:param mode: how to open. Defaults to r\n'
                    ':type mode: ```Literal[\'r\', \'w\']```\n\n:param retries: how often. Defaults to 0\n:type retries: ```int```\n'),
    ("rest", "B"): ('\nLoad other things\n\n:param destination: where to store to. Defaults to ```Path(\'.\')```\n:type destination: ```Path```\n\n'
                    ':param mode: how to write. Defaults to w\n:type mode: ```Literal[\'r\', \'w\']```\n\n:param retries: attempts\n:type retries: ```int```\n\n'
                    ':returns: the state\n:rtype: ```Optional[dict]```\n'),
    ("numpydoc", "A"): ('\nLoad things\n\n\nParameters\n----------\ndestination : Path\n    where to load from\nmode : Literal[\'r\', \'w\']\n    how to open. Defaults to r\n'
                        'retries : int\n    how often. Defaults to 0\n\n'),
    ("numpydoc", "B"): ('\nLoad other things\n\n\nParameters\n----------\ndestination : Path\n    where to store to\nmode : Literal[\'r\', \'w\']\n    how to write. Defaults to w\n'
                        'retries : int\n    attempts\n\nReturns\n-------\nOptional[dict]\n    the state\n\n'),
    ("google", "A"): ('Load things\n\nArgs:\n  destination (Path): where to load from\n  mode (Literal[\'r\', \'w\']): how to open. Defaults to r\n'
                      '  retries (int): how often. Defaults to 0\n'),
    ("google", "B"): ('Load other things\n\nArgs:\n  destination (Path): where to store to\n  mode (Literal[\'r\', \'w\']): how to write. Defaults to w\n'
                      '  retries (int): attempts\n\nReturns:\n  Optional[dict]: the state\n'),
}
TWIN_KINDS = ("function", "class", "argparse", "rest", "numpydoc", "google")


def twin_ir(which):
    from collections import OrderedDict

    if which == "A":
        return {"name": "load", "type": "static", "doc": "Load things", "params": OrderedDict((
            ("destination", {"typ": "Path", "doc": "where to load from"}),
            ("mode", {"typ": "Literal['r', 'w']", "doc": "how to open", "default": "r"}),
            ("retries", {"typ": "int", "doc": "how often", "default": 0}))), "returns": None}
    return {"name": "load", "type": "static", "doc": "Load other things", "params": OrderedDict((
        ("destination", {"typ": "Path", "doc": "where to store to", "default": "```Path('.')```"}),
        ("mode", {"typ": "Literal['r', 'w']", "doc": "how to write", "default": "w"}),
        ("retries", {"typ": "int", "doc": "attempts"}))),
        "returns": OrderedDict((("return_type", {"typ": "Optional[dict]", "doc": "the state", "default": "```None```"}),))}


def twin_conversions():
    out = []
    for kind in TWIN_KINDS:
        for which in "AB":
            out.append(("twin/parse.%s/%s" % (kind, which), ("twin_parse", (kind, which))))
            out.append(("twin/emit.%s/%s" % (kind, which), ("twin_emit", (kind, which))))
    return out


MULTI_KWARGS_SRC = ('class Trainer(object):\n    """\n    Train things\n\n    :cvar epochs: number of epochs\n'
                    '    :cvar model_kwargs: extra keyword arguments for the model\n    :cvar optimizer_kwargs: extra keyword arguments for the optimizer\n'
                    '    :cvar loss_kwargs: extra keyword arguments for the loss"""\n    epochs: int = 3\n    model_kwargs: Optional[dict] = None\n'
                    '    optimizer_kwargs: Optional[dict] = None\n    loss_kwargs: Optional[dict] = None\n')

LIVE_SRC = '''from typing import Optional


def lookup(key, fallback=None, strict: bool = False) -> Optional[str]:
    """
    Look the key up

    :param key: the key
    :param fallback: what to hand back
    :returns: the value found
    """
    return None


class Store(object):
    """
    A store

    :cvar size: the size
    """

    def __init__(self, size=4, label="l", ratio: float = 0.5):
        """
        init doc

        :param size: the size
        """
        self.size = size
'''

GEN_MOD = '''
import os
from typing import Optional


class Foo(object):
    """
    Foo summary

    :cvar x: the x
    """

    def __init__(self, x=5, y="s"):
        """
        init doc

        :param x: the x
        :param y: the y
        """
        self.x = x


def bar(p, q=3):
    """
    bar summary

    :param p: the p
    :param q: the q
    """
    return p


MAPPING = {"Foo": Foo, "bar": bar}
'''


def run(spec):
    from doctrans import emit, parse
    from doctrans.source_transformer import to_code

    op, arg = spec
    if op == "parse_function":
        return canon(parse.function(ast.parse(arg).body[0]))
    if op == "parse_function_emit_class":
        return to_code(emit.class_(parse.function(ast.parse(arg).body[0])))
    if op == "parse_class_init":
        return canon(parse.class_(ast.parse(arg).body[0], merge_inner_function="__init__"))
    if op == "parse_class_init_emit_function":
        return to_code(emit.function(parse.class_(ast.parse(arg).body[0], merge_inner_function="__init__"),
                                     function_name="f", function_type="static"))
    if op == "parse_docstring":
        return canon(parse.docstring(arg))
    if op == "to_code_too_deep":
        big = ("def big(a):\n    \"\"\"\n    :param a: the a\n    \"\"\"\n    total = " + " + ".join(["a"] * arg) + "\n    return total\n")
        try:
            return to_code(ast.parse(big))
        except RecursionError:
            return "RAISE:RecursionError"  # (the message depends on where the limit was hit)
    if op == "emit":
        sys.path.insert(0, os.environ.get("VERIF_HOME", "/verif"))
        from mc import alphabets as al

        A = al.A_RED
        ir = al.make_ir([A[0], A[2], A[5]], al.RETURNS[4], True, 0)
        if arg == "class":
            return to_code(emit.class_(ir))
        if arg == "function":
            return to_code(emit.function(ir, function_name="f", function_type="static"))
        if arg == "argparse":
            return to_code(emit.argparse_function(ir))
        return emit.docstring(ir, docstring_format=arg)
    if op == "twin_parse":
        kind, which = arg
        src = TWIN_SRC[(kind, which)]
        if kind in ("rest", "numpydoc", "google"):
            return canon(parse.docstring(src))
        node = ast.parse(src).body[0]
        return canon({"function": parse.function, "class": parse.class_, "argparse": parse.argparse_ast}[kind](node))
    if op == "twin_emit":
        kind, which = arg
        ir = twin_ir(which)
        if kind in ("rest", "numpydoc", "google"):
            return emit.docstring(ir, docstring_format=kind)
        if kind == "class":
            return to_code(emit.class_(ir, class_name="Loader"))
        if kind == "function":
            return to_code(emit.function(ir, function_name=None, function_type=None))
        return to_code(emit.argparse_function(ir))
    if op == "emit_union_literals":
        from collections import OrderedDict

        ir = {"name": None, "type": "static", "doc": "Summary", "returns": None, "params": OrderedDict((
            ("transport", {"typ": "Union[Literal['tcp', 'udp'], Literal['unix', 'pipe', 'shm']]", "doc": "the transport", "default": "tcp"}),))}
        return to_code(emit.argparse_function(ir)) + to_code(emit.class_(ir))
    if op in ("parse_live_emit_rest", "parse_live_class_emit_class"):
        import importlib
        import shutil

        d = tempfile.mkdtemp(prefix="c12live_")
        try:
            with open(os.path.join(d, "c12livemod.py"), "w") as f:
                f.write(arg)
            sys.path.insert(0, d)
            sys.modules.pop("c12livemod", None)
            importlib.invalidate_caches()
            import linecache

            linecache.clearcache()
            mod = importlib.import_module("c12livemod")
            if op == "parse_live_emit_rest":
                ir = parse.function(mod.lookup)
                return canon(ir) + emit.docstring(ir) + to_code(emit.function(ir, function_name=None, function_type=None))
            return to_code(emit.class_(parse.class_(mod.Store, merge_inner_function="__init__")))
        finally:
            if d in sys.path:
                sys.path.remove(d)
            sys.modules.pop("c12livemod", None)
            shutil.rmtree(d, ignore_errors=True)
    if op == "parse_class_emit_function":
        return to_code(emit.function(parse.class_(ast.parse(arg).body[0]), function_name="f", function_type="static"))
    if op == "parse_class_plain":
        return canon(parse.class_(ast.parse(arg).body[0]))
    if op == "emit_dup_literal":
        from collections import OrderedDict

        ir = {"name": None, "type": "static", "doc": "Summary", "returns": None, "params": OrderedDict((
            ("mode", {"typ": "Literal['alpha', 'beta', 'alpha', 'gamma', 'delta']", "doc": "the mode", "default": "beta"}),))}
        return to_code(emit.argparse_function(ir))
    if op == "emit_ret":
        sys.path.insert(0, os.environ.get("VERIF_HOME", "/verif"))
        from mc import alphabets as al

        kind, which = arg
        ret = ("int", "the first result", ("code", "a + 1")) if which == "prose" else ("int", al.ABSENT, ("code", "a + 2"))
        ir = al.make_ir([al.A_RED[0]], ret, False, 0)
        if kind == "argparse":
            return to_code(emit.argparse_function(ir))
        return to_code(emit.function(ir, function_name="f", function_type="static"))
    if op == "gen":
        from doctrans.gen import gen

        d = tempfile.mkdtemp(prefix="c12gen_")
        try:
            modname = "c12genmod_%d" % os.getpid()
            with open(os.path.join(d, modname + ".py"), "w") as f:
                f.write(GEN_MOD)
            sys.path.insert(0, d)
            out = os.path.join(d, "out.py")
            import io

            so = sys.stdout
            sys.stdout = io.StringIO()
            try:
                gen(name_tpl="{name}Config", input_mapping=modname + ".MAPPING", type_=arg, output_filename=out,
                    prepend="import json as _jj\n", imports_from_file=os.path.join(d, modname + ".py"))
            finally:
                sys.stdout = so
            with open(out) as f:
                return f.read()
        finally:
            if d in sys.path:
                sys.path.remove(d)
            sys.modules.pop("c12genmod_%d" % os.getpid(), None)
            import shutil

            shutil.rmtree(d, ignore_errors=True)
    raise ValueError(op)


def safe_run(spec):
    try:
        return run(spec)
    except Exception as e:  # a raise is an outcome too; it must be the same outcome everywhere
        return "RAISE:%s:%s" % (type(e).__name__, str(e)[:80])


def main():
    sys.path.insert(0, REPO)
    sys.dont_write_bytecode = True
    try:
        import meta.asttools  # noqa
    except Exception:
        pass
    import logging

    logging.disable(logging.CRITICAL)
    k_max = int(sys.argv[1]) if len(sys.argv) > 1 else 3
    probe = {}
    for k, names in ((2, ["p", "q"]), (3, ["alpha", "b", "zeta"]), (4, ["w", "x", "y", "z"])):
        d1 = dict.fromkeys(["doc1"] + names)
        d2 = dict.fromkeys(["doc1"])
        probe[k] = list(d1.keys() - d2.keys())
    probe["phrases"] = list(frozenset(("defaults to ", "defaults to\n", "Default value is ", "Default:")))
    print("ORDER\t" + json.dumps(probe))
    for cid, spec in conversions(k_max):
        out = safe_run(spec)
        print("%s\t%s\t%s" % (cid, hashlib.sha256(out.encode()).hexdigest()[:16], out[:6].replace("\n", " ") if out.startswith("RAISE") else ""))


if __name__ == "__main__":
    main()
