"""
C18 worker: run in a fresh interpreter with DOCTRANS_LINE_LENGTH already set (or unset) in the environment.
Emits every width-relative IR with every emitter, word_wrap on and off, parses both artefacts back and prints
one JSON list of site records comparing parse(wrapped) with parse(unwrapped).
"""
import json
import os
import sys

REPO = os.environ.get("VERIF_REPO", "/repo")
HOME = os.environ.get("VERIF_HOME", "/verif")
sys.path.insert(0, HOME)
sys.path.insert(0, REPO)
sys.dont_write_bytecode = True


def words(n, tag):
    """Deterministic prose of exactly n characters made of short words (no full stops, no section tokens)."""
    out = []
    i = 0
    while len(" ".join(out)) < n:
        out.append("%s%d" % (tag, i) if i % 3 else "word")
        i += 1
    s = " ".join(out)[:n]
    if s.endswith(" "):
        s = s[:-1] + "x"
    return s


def long_type(n):
    names = []
    i = 0
    while len("Union[" + ", ".join(names) + "]") < n:
        names.append("Ty%d" % i)
        i += 1
    return "Union[" + ", ".join(names) + "]"


def long_literal(n):
    """Literal of multi-word string choices, about n characters long (a wrapped type line can break inside a choice)."""
    names = []
    i = 0
    while len("Literal[" + ", ".join(names) + "]") < n:
        names.append("'choice number %d'" % i)
        i += 1
    return "Literal[" + ", ".join(names) + "]"


def cases(L):
    lens = [("L-1", L - 1), ("L", L), ("L+1", L + 1), ("2L+3", 2 * L + 3), ("5L", 5 * L)]
    out = []
    for label, n in lens:
        out.append(("summary:" + label, dict(summary=words(n, "s"))))
        out.append(("prose:" + label, dict(a_doc=words(n, "p"))))
        out.append(("type:" + label, dict(a_typ=long_type(n))))
        out.append(("ret_prose:" + label, dict(ret_doc=words(n, "r"))))
        out.append(("all:" + label, dict(summary=words(n, "s"), a_doc=words(n, "p"), a_typ=long_type(n), ret_doc=words(n, "r"))))
        out.append(("both_params:" + label, dict(a_doc=words(n, "p"), b_doc=words(n, "q"))))
        out.append(("prose+default:" + label, dict(a_doc=words(n, "p"), a_default=5)))
        out.append(("second_param:" + label, dict(b_doc=words(n, "q"), b_default="foo")))
        out.append(("literal_type:" + label, dict(a_typ=long_literal(n), a_default="choice number 0")))
        out.append(("literal_type_noprose:" + label, dict(a_typ=long_literal(n), a_doc=None)))
        out.append(("long_type_noprose:" + label, dict(a_typ=long_type(n), a_doc=None, a_default=5)))
    # absolute lengths: sweeping L moves the line break across every position of these texts
    for n in range(36, 141, 3):
        out.append(("fixed_default_sentence:%d" % n, dict(a_doc=words(n, "p") + ". Defaults to 5")))
    # long prose under a two-line summary: the re-fill path of the class / function docstring builder
    for n in range(150, 331, 3):
        out.append(("multiline_summary:%d" % n, dict(summary="First line of the summary\nsecond line of it", a_doc=words(n, "p"))))
    for n in range(40, 141, 10):
        out.append(("fixed_literal_type:%d" % n, dict(a_typ=long_literal(n), a_default="choice number 1")))
    for n in (45, 70, 95, 120, 170, 260):
        out.append(("fixed_dashes:%d" % n, dict(a_doc=dashed(n), b_doc=dashed(n + 7))))
    return out


def dashed(n):
    """Prose with free-standing dashes and suspended hyphens every few words."""
    toks = []
    i = 0
    while len(" ".join(toks)) < n:
        toks.append(("lo", "-", "hi", "pre-", "and", "post", "w%d" % i)[i % 7])
        i += 1
    s = " ".join(toks)[:n].rstrip(" -")
    return s + "x" if s.endswith(" ") else s


def build_ir(spec):
    from collections import OrderedDict

    a = {"doc": spec.get("a_doc", "the a"), "typ": spec.get("a_typ", "int")}
    if a["doc"] is None:  # an entry that has a type but no description
        del a["doc"]
    if "a_default" in spec:
        a["default"] = spec["a_default"]
    b = {"doc": spec.get("b_doc", "the b"), "typ": "str"}
    if "b_default" in spec:
        b["default"] = spec["b_default"]
    return {"name": None, "type": "static", "doc": spec.get("summary", "Summary line"),
            "params": OrderedDict((("a", a), ("b", b))),
            "returns": OrderedDict((("return_type", {"doc": spec.get("ret_doc", "the result"), "typ": "int", "default": "```a```"}),))}


# rest_strip: ReST docstring read back with emit_default_doc=False (the parser removes the default sentence from the prose);
# class_edd: class emitted with default text on (parse.class_ removes the sentence)
KINDS = ["rest", "numpydoc", "google", "class", "function", "function_doctypes", "argparse", "rest_strip", "class_edd"]


def main():
    try:
        import meta.asttools  # noqa
    except Exception:
        pass
    import logging

    logging.disable(logging.CRITICAL)
    from mc import refmodel as rm
    from mc import roundtrip as rt
    import doctrans.pure_utils as pu

    env = os.environ.get("DOCTRANS_LINE_LENGTH")
    L = int(env) if env else 100
    sites = []
    eff = pu.line_length
    sites.append({"ok": eff == L and isinstance(eff, int), "facts": {"field": "config", "L": env or "unset"},
                  "obs": {} if (eff == L and isinstance(eff, int)) else {"obs.fail": "line_length_not_applied", "obs.got": repr(eff)}})

    def conv(kind, ir, ww):
        k = "function" if kind.startswith("function") else {"rest_strip": "rest", "class_edd": "class"}.get(kind, kind)
        opts = {"edd": kind in rt.DOC_KINDS or kind in ("rest_strip", "class_edd"), "ww": ww}
        if kind == "function_doctypes":
            opts["inline"] = False
        text = rt.emit_kind(k, ir, opts)
        return text, rm.project(rt.parse_kind(k, text, {"pedd": False} if kind == "rest_strip" else None))

    def nows(s):
        """whitespace outside string literals is immaterial to a type expression; inside quotes a run of blanks counts as one"""
        if s is None:
            return None
        out, quote, prev_blank = [], None, False
        for ch in s:
            if quote:
                if ch.isspace():
                    if not prev_blank:
                        out.append(" ")
                    prev_blank = True
                    continue
                prev_blank = False
                out.append(ch)
                if ch == quote:
                    quote = None
            elif ch in "'\"":
                quote, prev_blank = ch, False
                out.append(ch)
            elif not ch.isspace():
                out.append(ch)
        return "".join(out)

    for cid, spec in cases(L):
        for kind in KINDS:
            base = {"case": cid, "kind": kind, "L": env or "unset"}
            res = {}
            for ww in (True, False):
                try:
                    res[ww] = conv(kind, build_ir(spec), ww)
                except Exception as e:
                    res[ww] = e
            for ww in (True, False):
                if isinstance(res[ww], Exception):
                    e = res[ww]
                    sites.append({"ok": False, "facts": dict(base, field="emit_parse", ww=ww),
                                  "obs": {"obs.fail": "raise", "obs.exc": type(e).__name__}})
                else:
                    sites.append({"ok": True, "facts": dict(base, field="emit_parse", ww=ww), "obs": {}})
            if isinstance(res[True], Exception) or isinstance(res[False], Exception):
                continue
            (tw, pw), (tu, pnw) = res[True], res[False]
            wrapped_differs = tw != tu

            def add(field, a, b):
                ok = a == b
                sites.append({"ok": ok, "facts": dict(base, field=field, wrapped_text_differs=wrapped_differs),
                              "obs": {} if ok else {"obs.fail": "wrapped_differs_from_unwrapped", "obs.wrapped": str(a)[:70],
                                                    "obs.unwrapped": str(b)[:70]}})

            add("summary", pw["doc"], pnw["doc"])
            add("names", [p[0] for p in pw["params"]], [p[0] for p in pnw["params"]])
            du = {p[0]: p for p in pnw["params"]}
            for name, typ, doc, default in pw["params"]:
                if name in du:
                    add("typ:" + name, nows(typ), nows(du[name][1]))
                    add("doc:" + name, doc, du[name][2])
                    add("default:" + name, default, du[name][3])
            rw, ru = pw["ret"], pnw["ret"]
            add("ret.present", rw is not None, ru is not None)
            if rw is not None and ru is not None:
                add("ret.typ", nows(rw[0]), nows(ru[0]))
                add("ret.doc", rw[1], ru[1])
                add("ret.default", rw[2], ru[2])
    json.dump(sites, sys.stdout, default=repr)


if __name__ == "__main__":
    main()
