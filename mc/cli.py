"""./vcheck <ID> [--tier quick|thorough] [--replay path]   |   ./vcheck selftest"""
import argparse
import os
import sys


def main(argv=None):
    ap = argparse.ArgumentParser(prog="vcheck")
    ap.add_argument("prop")
    ap.add_argument("--tier", default=os.environ.get("VERIF_TIER", "quick"), choices=("quick", "thorough"))
    ap.add_argument("--replay")
    a = ap.parse_args(argv)
    seed = int(os.environ.get("VERIF_SEED", "0") or 0)
    from mc import core

    if a.prop == "selftest":
        from mc import selftest

        return selftest.main()
    pid = a.prop.upper()
    if a.replay:
        return core.run_replay(pid, a.replay)
    return core.run_check(pid, a.tier, seed)


if __name__ == "__main__":
    sys.exit(main())
