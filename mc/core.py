"""
Core of the bounded-exhaustive / explicit-state harness.

Vocabulary
----------
case   one element of an enumerated space (JSON-serialisable), addressed by its index
site   one obligation checked inside a case: ``{"facts": {...}, "ok": bool, "obs": {...}}``
       ``facts`` describe the *input side* of the obligation (what was fed to doctrans),
       ``obs`` (keys prefixed ``obs.``) describe what was observed when it failed
group  all failing sites with identical facts+obs (the unit matched against known findings)

Nothing here samples: spaces are enumerated completely, sharded by index range over worker
processes.  ``VERIF_SEED`` only permutes the order in which shards are handed out.
"""
import hashlib
import importlib
import json
import os
import random
import sys
import time
import traceback
from collections import Counter
from concurrent.futures import ProcessPoolExecutor
import multiprocessing

from mc import boot

HOME = boot.VERIF_HOME
NPROC = int(os.environ.get("VERIF_NPROC", "0")) or min(16, os.cpu_count() or 1)
KEEP_PASS = bool(os.environ.get("VERIF_DUMP"))


# --------------------------------------------------------------------------- spaces
class Space(object):
    """A finite, index-addressable set of cases."""

    def __len__(self):
        raise NotImplementedError

    def __getitem__(self, i):
        raise NotImplementedError

    def describe(self):
        return {}


class Product(Space):
    """Cartesian product of named finite dimensions; index 0 = all-first (simplest first:
    the *last* dimension varies fastest, so put the most 'structural' dimension first)."""

    def __init__(self, **dims):
        self.names = list(dims.keys())
        self.dims = [list(v) for v in dims.values()]
        self.n = 1
        for d in self.dims:
            self.n *= len(d)

    def __len__(self):
        return self.n

    def __getitem__(self, i):
        if not 0 <= i < self.n:
            raise IndexError(i)
        out = {}
        for name, d in zip(reversed(self.names), reversed(self.dims)):
            i, r = divmod(i, len(d))
            out[name] = d[r]
        return {k: out[k] for k in self.names}

    def describe(self):
        return {n: len(d) for n, d in zip(self.names, self.dims)}


class Concat(Space):
    def __init__(self, *spaces):
        self.spaces = spaces
        self.offs = []
        n = 0
        for s in spaces:
            self.offs.append(n)
            n += len(s)
        self.n = n

    def __len__(self):
        return self.n

    def __getitem__(self, i):
        if not 0 <= i < self.n:
            raise IndexError(i)
        for s, o in zip(reversed(self.spaces), reversed(self.offs)):
            if i >= o:
                return s[i - o]

    def describe(self):
        return {"parts": [s.describe() for s in self.spaces]}


class Listed(Space):
    def __init__(self, items, note=None):
        self.items = list(items)
        self.note = note

    def __len__(self):
        return len(self.items)

    def __getitem__(self, i):
        return self.items[i]

    def describe(self):
        return {"listed": len(self.items), "note": self.note}


class Mapped(Space):
    """Lazy map over a space."""

    def __init__(self, base, fn, note=None):
        self.base, self.fn, self.note = base, fn, note

    def __len__(self):
        return len(self.base)

    def __getitem__(self, i):
        return self.fn(self.base[i])

    def describe(self):
        d = dict(self.base.describe())
        if self.note:
            d["note"] = self.note
        return d


# --------------------------------------------------------------------------- helpers
def h64(obj):
    if not isinstance(obj, (bytes, str)):
        obj = json.dumps(obj, sort_keys=True, default=repr)
    if isinstance(obj, str):
        obj = obj.encode("utf-8", "surrogatepass")
    return int.from_bytes(hashlib.blake2b(obj, digest_size=8).digest(), "big")


def site(ok, facts, **obs):
    """Build a site record; obs keys get the ``obs.`` prefix."""
    return {"ok": bool(ok), "facts": facts, "obs": {("obs." + k): v for k, v in obs.items()} if not ok else {}}


def jkey(d):
    return json.dumps(d, sort_keys=True, default=repr)


def short(v, n=160):
    s = v if isinstance(v, str) else repr(v)
    return s if len(s) <= n else s[: n - 3] + "..."


def exc_obs(e):
    """Stable description of an exception raised by doctrans: class + innermost doctrans frame."""
    tb = traceback.extract_tb(e.__traceback__)
    where = None
    for fr in reversed(tb):
        if "/doctrans/" in fr.filename and "/tests/" not in fr.filename:
            where = "%s:%s" % (os.path.basename(fr.filename), fr.name)
            break
    return {"exc": type(e).__name__, "where": where, "msg": short(str(e), 120)}


# --------------------------------------------------------------------------- result aggregation
class Agg(object):
    """Mergeable aggregate of explored cases."""

    def __init__(self):
        self.cases = 0
        self.sites = 0
        self.nontrivial = set()
        self.outcomes = Counter()
        self.pass_groups = Counter()
        self.fail_groups = {}  # key -> [count, min_idx, facts, obs]
        self.samples = []
        self.extra = Counter()
        self.sets = {}
        self.harness_errors = []

    def add_case(self, idx, case, sites, nontrivial_key=None, outcome=None, sample=False):
        self.cases += 1
        if nontrivial_key is not None:
            self.nontrivial.add(h64(nontrivial_key))
        if outcome is not None:
            self.outcomes[h64(outcome)] += 1
        for s in sites:
            self.sites += 1
            if s["ok"]:
                if KEEP_PASS:
                    self.pass_groups[jkey(s["facts"])] += 1
            else:
                k = jkey([s["facts"], s["obs"]])
                g = self.fail_groups.get(k)
                if g is None:
                    self.fail_groups[k] = [1, idx, s["facts"], s["obs"]]
                else:
                    g[0] += 1
                    if idx < g[1]:
                        g[1] = idx
        if sample and len(self.samples) < 3:
            self.samples.append(case)

    def merge(self, o):
        self.cases += o.cases
        self.sites += o.sites
        self.nontrivial |= o.nontrivial
        self.outcomes.update(o.outcomes)
        self.pass_groups.update(o.pass_groups)
        for k, g in o.fail_groups.items():
            m = self.fail_groups.get(k)
            if m is None:
                self.fail_groups[k] = list(g)
            else:
                m[0] += g[0]
                if g[1] < m[1]:
                    m[1] = g[1]
        for s in o.samples:
            if len(self.samples) < 4:
                self.samples.append(s)
        self.extra.update(o.extra)
        for k, v in o.sets.items():
            self.sets.setdefault(k, set()).update(v)
        self.harness_errors.extend(o.harness_errors)
        return self


# --------------------------------------------------------------------------- checks
class Check(object):
    """Base class of a property check. Subclasses define id, level and execute()."""

    id = None
    level = "exploration"
    rule = ""
    assumptions = ()

    def __init__(self, tier="quick", seed=0):
        self.tier = tier
        self.seed = seed

    # -- E1 interface (optional): an indexable space + per-case function
    def space(self):
        raise NotImplementedError

    def run_case(self, case):
        """Return (sites, nontrivial_key_or_None, outcome_key_or_None)."""
        raise NotImplementedError

    def execute(self, pool):
        """Default: enumerate self.space() completely. Returns (Agg, coverage_extra dict)."""
        sp = self.space()
        agg = explore_space(self, sp, pool)
        return agg, {"space": sp.describe(), "space_size": len(sp), "exhaustive": True}

    def replay(self, rec):
        """Re-run one recorded case; return list of failing sites."""
        sites = self.run_case(rec["case"])[0]
        return [s for s in sites if not s["ok"]]


_CHECK_CACHE = {}


def load_check(pid, tier, seed):
    key = (pid, tier, seed)
    if key not in _CHECK_CACHE:
        mod = importlib.import_module("mc.props.%s" % pid.lower())
        _CHECK_CACHE[key] = mod.CHECK(tier=tier, seed=seed)
    return _CHECK_CACHE[key]


def _init_worker():
    boot.boot()


def _work_range(args):
    pid, tier, seed, lo, hi, method = args
    boot.boot()
    chk = load_check(pid, tier, seed)
    agg = Agg()
    sp = chk.space() if method == "space" else getattr(chk, method)()
    for i in range(lo, hi):
        case = sp[i]
        try:
            res = chk.run_case(case)
            sites, nt, oc = res[:3]
            if len(res) > 3 and res[3]:
                for k, v in res[3].items():
                    if isinstance(v, (set, list, tuple)):
                        agg.sets.setdefault(k, set()).update(h64(x) for x in v)
                    else:
                        agg.extra[k] += v
        except Exception:
            agg.harness_errors.append({"index": i, "case": case, "tb": traceback.format_exc()})
            if len(agg.harness_errors) > 3:
                break
            continue
        agg.add_case(i, case, sites, nt, oc, sample=(i == lo))
        if i == lo:
            first_sites = [(jkey(x["facts"]), x["ok"]) for x in sites]
    # purity probe: the first case of the shard is executed again after every other case of the shard has run in this
    # process; its verdicts must not depend on what ran in between (state kept between calls would show here)
    if hi - lo > 1 and getattr(chk, "purity_probe", True) and not agg.harness_errors:
        try:
            again = [(jkey(x["facts"]), x["ok"]) for x in chk.run_case(sp[lo])[0]]
            if again != first_sites:
                changed = [f for (f, ok), (f2, ok2) in zip(first_sites, again) if f == f2 and ok != ok2][:1]
                agg.add_case(lo, sp[lo], [site(False, {"field": "purity_probe", "shard_first_case": lo},
                                               fail="verdict_depends_on_earlier_calls_in_the_process",
                                               site=short(changed[0], 200) if changed else "site list differs")], None, None)
            else:
                agg.extra["purity_probes_passed"] += 1
        except Exception:
            agg.harness_errors.append({"index": lo, "case": sp[lo], "tb": traceback.format_exc()})
    return agg


def explore_space(chk, sp, pool, method="space", chunk=None):
    n = len(sp)
    if n == 0:
        return Agg()
    if chunk is None:
        chunk = max(1, min(2000, n // (NPROC * 8) or 1))
    jobs = [(chk.id, chk.tier, chk.seed, lo, min(n, lo + chunk), method) for lo in range(0, n, chunk)]
    random.Random(chk.seed).shuffle(jobs)  # order only; the set of jobs is fixed
    agg = Agg()
    for part in pool.map(_work_range, jobs):
        agg.merge(part)
    return agg


def make_pool(n=None):
    ctx = multiprocessing.get_context("fork")
    return ProcessPoolExecutor(max_workers=n or NPROC, mp_context=ctx, initializer=_init_worker)


# --------------------------------------------------------------------------- known findings
def load_findings(pid):
    path = os.path.join(HOME, "known_findings.json")
    if not os.path.exists(path):
        return []
    with open(path) as f:
        data = json.load(f)
    return [e for e in data.get("findings", []) if e.get("property") == pid]


def load_extension(pid):
    """Exact extension of the known findings of one property: finding id -> set of group hashes.
    Written only by the developer tool mc.baseline, never at check time."""
    path = os.path.join(HOME, "known", "%s.json" % pid)
    if not os.path.exists(path):
        return {}
    with open(path) as f:
        data = json.load(f)
    out = {}
    for fid, blob in data.get("groups", {}).items():
        out[fid] = set(blob[i:i + 16] for i in range(0, len(blob), 16))
    return out


HASH_EXCLUDE = ("obs.msg",)


def group_hash(facts, obs):
    o = {k: v for k, v in (obs or {}).items() if k not in HASH_EXCLUDE}
    return "%016x" % h64(jkey([jsonable(facts), jsonable(o)]))


def _match_value(pat, val):
    if isinstance(pat, list):
        return any(_match_value(p, val) for p in pat)
    if isinstance(pat, dict):
        if "not" in pat:
            return not _match_value(pat["not"], val)
        if "prefix" in pat:
            return isinstance(val, str) and val.startswith(pat["prefix"])
        if "contains" in pat:
            return isinstance(val, str) and pat["contains"] in val
        if "present" in pat:
            return (val is not _ABSENT) == bool(pat["present"])
        return False
    return type(pat) is type(val) and pat == val


_ABSENT = object()


def match_pattern(match, facts, obs=None, only_input=False):
    for k, pat in match.items():
        is_obs = k.startswith("obs.")
        if only_input and is_obs:
            continue
        src = obs if is_obs else facts
        val = (src or {}).get(k, _ABSENT)
        if val is _ABSENT and not (isinstance(pat, dict) and ("present" in pat or "not" in pat)):
            return False
        if not _match_value(pat, val):
            return False
    return True


# --------------------------------------------------------------------------- evidence
def validate_evidence(ev):
    """Minimal structural validation mirroring EVIDENCE.schema.json (jsonschema is not in /venv)."""
    for k in ("property_id", "tier", "seed", "level", "coverage", "wall_s"):
        assert k in ev, "evidence missing %s" % k
    assert ev["tier"] in ("quick", "thorough")
    assert isinstance(ev["seed"], int)
    cov = ev["coverage"]
    lvl = ev["level"]
    if lvl in ("exploration", "fault_enumeration"):
        assert cov["evaluations"] >= 1 and cov["distinct_nontrivial"] >= 2
        assert isinstance(cov["rule"], str) and len(cov["samples"]) >= 1
    elif lvl == "model_checking":
        if all(k in cov for k in ("states", "transitions", "traces_validated_against_impl", "samples")):
            assert cov["states"] >= 1 and cov["transitions"] >= 1 and len(cov["samples"]) >= 1
        else:
            assert cov["evaluations"] >= 1 and cov["distinct_nontrivial"] >= 2
    return True


def jsonable(o):
    if isinstance(o, dict):
        return {str(k): jsonable(v) for k, v in o.items()}
    if isinstance(o, (list, tuple)):
        return [jsonable(v) for v in o]
    if isinstance(o, (str, int, float, bool)) or o is None:
        return o
    return repr(o)


# --------------------------------------------------------------------------- runner
def run_check(pid, tier, seed):
    t0 = time.time()
    boot.boot()
    chk = load_check(pid, tier, seed)
    with make_pool() as pool:
        agg, cov_extra = chk.execute(pool)
    wall = time.time() - t0

    if agg.harness_errors:
        for he in agg.harness_errors[:3]:
            sys.stderr.write("HARNESS-ERROR property=%s index=%s\n%s\n" % (pid, he.get("index"), he.get("tb")))
        sys.stderr.write("harness errors: %d (this is a defect of the check, not a verdict)\n" % len(agg.harness_errors))
        return 2

    dump = os.environ.get("VERIF_DUMP")
    if dump:
        with open(dump, "w") as f:
            json.dump({"fail": [[c, i, fa, ob] for (c, i, fa, ob) in agg.fail_groups.values()],
                       "pass": [[json.loads(k), c] for k, c in agg.pass_groups.items()]}, f, default=repr)

    findings = load_findings(pid)
    known = [f for f in findings if f.get("status") == "known"]
    ext = load_extension(pid)
    owner = {}
    for fid, keys in ext.items():
        for k in keys:
            owner[k] = fid
    known_ids = set(f["id"] for f in known)
    matched = {f["id"]: [0, 0] for f in known}  # sites, groups
    unmatched = []
    for k, (count, idx, facts, obs) in agg.fail_groups.items():
        fid = owner.get(group_hash(facts, obs))
        if fid is None or fid not in known_ids:
            hint = None
            for f in known:
                if match_pattern(f["match"], facts, obs):
                    hint = f["id"]
                    break
            unmatched.append((idx, count, facts, obs, hint))
        else:
            matched[fid][0] += count
            matched[fid][1] += 1
    if os.environ.get("VERIF_COLLECT"):
        # developer-only: hand the raw groups to mc.baseline (never used by registered commands)
        with open(os.environ["VERIF_COLLECT"], "w") as f:
            json.dump([[c, i, fa, ob] for (c, i, fa, ob) in agg.fail_groups.values()], f, default=repr)

    for f in known:
        s_, g_ = matched[f["id"]]
        if s_:
            print("KNOWN-FINDING: property=%s id=%s %s (%d failing sites in %d recorded site/observation groups)" % (
                pid, f["id"], f["title"], s_, g_))
        else:
            print("note: known finding %s did not occur in this run (%s tier)" % (f["id"], tier))

    unmatched.sort(key=lambda t: (t[4] is not None, t[0], jkey(t[2]), jkey(t[3])))
    vio_paths = []
    if unmatched:
        rdir = os.path.join(HOME, "replays", pid)
        os.makedirs(rdir, exist_ok=True)
        sp = None
        for n, (idx, count, facts, obs, hint) in enumerate(unmatched):
            if n >= 20:
                break
            try:
                case = chk.case_at(idx) if hasattr(chk, "case_at") else chk.space()[idx]
            except Exception:
                case = None
            rec = {"property": pid, "tier": tier, "seed": seed, "index": idx, "case": jsonable(case),
                   "facts": jsonable(facts), "obs": jsonable(obs), "sites_in_group": count}
            path = os.path.join(rdir, "v%03d_%016x.json" % (n, h64([facts, obs])))
            with open(path, "w") as f:
                json.dump(rec, f, indent=1, sort_keys=True)
            vio_paths.append(path)
            print("VIOLATION property=%s replay=%s" % (pid, path))
            print("   facts=%s" % short(jkey(facts), 400))
            print("   obs=%s (x%d)%s" % (short(jkey(obs), 400), count,
                                         (" [resembles known finding %s but is a different site/observation]" % hint) if hint else ""))
        if len(unmatched) > 20:
            print("... and %d more violation groups" % (len(unmatched) - 20))

    cov = {
        "evaluations": agg.cases,
        "distinct_nontrivial": len(agg.nontrivial),
        "rule": chk.rule,
        "samples": jsonable(agg.samples[:3]) or ["(no samples)"],
        "sites_checked": agg.sites,
        "distinct_outcomes": len(agg.outcomes),
        "failing_site_groups": len(agg.fail_groups),
        "failing_sites": sum(g[0] for g in agg.fail_groups.values()),
        "known_finding_sites": {k: v[0] for k, v in matched.items()},
        "new_violation_groups": len(unmatched),
        "workers": NPROC,
    }
    for k, v in agg.extra.items():
        cov.setdefault(k, v)
    for k, v in agg.sets.items():
        cov.setdefault(k, len(v))
    cov.update(jsonable(cov_extra))
    ev = {
        "property_id": pid,
        "tier": tier,
        "seed": seed,
        "level": chk.level,
        "coverage": cov,
        "assumptions": list(chk.assumptions),
        "wall_s": round(wall, 3),
        "violations": len(unmatched),
    }
    validate_evidence(ev)
    os.makedirs(os.path.join(HOME, "evidence"), exist_ok=True)
    with open(os.path.join(HOME, "evidence", "%s.json" % pid), "w") as f:
        json.dump(ev, f, indent=1, sort_keys=True)
    print("%s %s: cases=%d sites=%d nontrivial=%d outcomes=%d fail_groups=%d new=%d wall=%.1fs" % (
        pid, tier, agg.cases, agg.sites, len(agg.nontrivial), len(agg.outcomes), len(agg.fail_groups),
        len(unmatched), wall))
    return 1 if unmatched else 0


def run_replay(pid, path):
    boot.boot()
    with open(path) as f:
        rec = json.load(f)
    chk = load_check(pid, rec.get("tier", "quick"), rec.get("seed", 0))
    fails = chk.replay(rec)
    # failing sites that belong to a recorded known finding are not violations
    owner = {}
    known_ids = set(f["id"] for f in load_findings(pid) if f.get("status") == "known")
    for fid, keys in load_extension(pid).items():
        if fid in known_ids:
            for k in keys:
                owner[k] = fid
    known_fails = [s for s in fails if group_hash(s["facts"], s["obs"]) in owner]
    fails = [s for s in fails if group_hash(s["facts"], s["obs"]) not in owner]
    if known_fails:
        print("(%d failing sites of this case belong to known findings: %s)" % (
            len(known_fails), ", ".join(sorted(set(owner[group_hash(s["facts"], s["obs"])] for s in known_fails)))))
    want = (jkey(rec.get("facts")), jkey(rec.get("obs")))
    same = [s for s in fails if (jkey(jsonable(s["facts"])), jkey(jsonable(s["obs"]))) == want]
    print("replay %s: %d failing sites, recorded failure %s" % (path, len(fails), "REPRODUCED" if same else "not reproduced"))
    for s in (same or fails)[:5]:
        print("   facts=%s\n   obs=%s" % (jkey(s["facts"]), jkey(s["obs"])))
    if fails:
        print("VIOLATION property=%s replay=%s" % (pid, path))
        return 1
    return 0
