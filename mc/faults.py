"""
E4 - fault / crash-point injection for file-writing operations.

``FaultInjector`` replaces ``builtins.open`` (only for write-mode opens of paths under the sandbox root) and wraps the
conversion functions of doctrans.emit / doctrans.parse.  In recording mode it counts the write-path opens and the
conversion calls of an operation; in injection mode it makes exactly one of them fail:

  open#i  before_open        the open call raises OSError (nothing touched)
  open#i  after_open         the file is opened exactly as the real mode does (truncating for 'w'), the first write raises
  open#i  mid_write          the first write stores the first half of its data, flushes, then raises OSError(ENOSPC)
  conv#k                     the k-th emit/parse call raises RuntimeError
"""
import builtins
import errno
import os

CONV_FUNCS = [("emit", "class_"), ("emit", "function"), ("emit", "argparse_function"), ("emit", "docstring"),
              ("parse", "class_"), ("parse", "function"), ("parse", "argparse_ast"), ("parse", "docstring"),
              # rendering steps inside emit.file (source text is produced and formatted before the file is opened)
              ("emit", "to_code"), ("emit", "format_str")]


class _Proxy(object):
    def __init__(self, fh, mode):
        self._fh, self._mode, self._first = fh, mode, True

    def write(self, data):
        if self._first:
            self._first = False
            if self._mode == "after_open":
                raise OSError(errno.EIO, "injected: write failed")
            if self._mode == "mid_write":
                self._fh.write(data[: len(data) // 2])
                self._fh.flush()
                raise OSError(errno.ENOSPC, "injected: no space left on device")
        return self._fh.write(data)

    def __enter__(self):
        return self

    def __exit__(self, *a):
        self._fh.close()
        return False

    def __getattr__(self, k):
        return getattr(self._fh, k)


class FaultInjector(object):
    def __init__(self, root, fault=None):
        """fault: None (record) | ("open", index, kind) | ("conv", index)"""
        self.root = os.path.realpath(root)
        self.fault = fault
        self.opens = []   # (basename, mode)
        self.convs = []   # "emit.class_" ...
        self.fired = False

    def __enter__(self):
        import doctrans.emit as emit
        import doctrans.parse as parse

        self._real_open = builtins.open
        self._saved = {}
        mods = {"emit": emit, "parse": parse}

        def fake_open(file, mode="r", *a, **kw):
            try:
                p = os.path.realpath(file) if isinstance(file, (str, bytes, os.PathLike)) else None
            except Exception:
                p = None
            if p is not None and isinstance(p, str) and p.startswith(self.root + os.sep) and any(c in mode for c in "wa+x"):
                idx = len(self.opens)
                self.opens.append((os.path.basename(p), mode))
                if self.fault and self.fault[0] == "open" and self.fault[1] == idx:
                    self.fired = True
                    kind = self.fault[2]
                    if kind == "before_open":
                        raise OSError(errno.EACCES, "injected: permission denied", file)
                    return _Proxy(self._real_open(file, mode, *a, **kw), kind)
            return self._real_open(file, mode, *a, **kw)

        builtins.open = fake_open
        for mname, fname in CONV_FUNCS:
            mod = mods[mname]
            real = getattr(mod, fname)
            self._saved[(mod, fname)] = real

            def make(real, label):
                def wrapped(*a, **kw):
                    idx = len(self.convs)
                    self.convs.append(label)
                    if self.fault and self.fault[0] == "conv" and self.fault[1] == idx:
                        self.fired = True
                        raise RuntimeError("injected: conversion step %d (%s) failed" % (idx, label))
                    return real(*a, **kw)

                wrapped.__name__ = real.__name__
                return wrapped

            setattr(mod, fname, make(real, "%s.%s" % (mname, fname)))
        return self

    def __exit__(self, *a):
        builtins.open = self._real_open
        for (mod, fname), real in self._saved.items():
            setattr(mod, fname, real)
        return False
