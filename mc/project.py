"""
Project harness shared by C09 / C10 / C11 / C20: hand-written (not doctrans-produced) source templates for an
interface in each of the three sync kinds, independent interface extractors over ``ast``, and drivers for
``doctrans.conformance.ground_truth`` and ``python -m doctrans sync`` (through ``doctrans.__main__.main``).
"""
import ast
import os
import re
from argparse import Namespace
from collections import OrderedDict

from mc import boot

KINDS = ("class", "function", "argparse_function")
SHORT = {"class": "C", "function": "F", "argparse_function": "A"}
FILES = {"class": "klass.py", "function": "func.py", "argparse_function": "argp.py"}
DEF_NAMES = {"class": "ConfigClass", "function": "train", "argparse_function": "set_cli_args"}

# ----------------------------------------------------------------------------- interface versions
# (name, type, default python literal source or None, prose)
VERSIONS = {
    "v1": {"doc": "First interface", "params": [("a", "int", "5", "the a"), ("b", "str", "'foo'", "the b")]},
    "v2": {"doc": "Second interface", "params": [("a", "int", "7", "the a"), ("c", "float", "0.5", "the c")]},
    "v3": {"doc": "Third interface", "params": [("x", "bool", "True", "the x")]},
    "v4": {"doc": "Fourth interface", "params": [("n", "int", None, "the n"), ("s", "str", "'bar'", "the s"), ("f", "float", "-1.5", "the f")]},
    "v5": {"doc": "Fifth interface", "params": [("a", "int", "5", "the a")]},
    "v6": {"doc": "Sixth interface", "params": [("p", "Optional[int]", "None", "the p"), ("q", "str", "'qq'", "the q")]},
}


def render(kind, version, name=None, method_of=None, body_extra="", reverse=False):
    """Canonical hand-written source of ``version`` as ``kind``.  ``method_of``: wrap a function in that class.
    ``reverse``: same parameters in reversed order (a target that disagrees with the truth in order only)."""
    v = VERSIONS[version]
    if reverse:
        v = dict(v, params=list(reversed(v["params"])))
    name = name or DEF_NAMES[kind]
    if kind == "class":
        lines = ["class %s(object):" % name, '    """', "    %s" % v["doc"], ""]
        lines += ["    :cvar %s: %s" % (n, d) for n, t, dv, d in v["params"]]
        lines[-1] += '"""'
        for n, t, dv, d in v["params"]:
            lines.append("    %s: %s = %s" % (n, t, dv if dv is not None else {"int": "0", "str": "''", "float": "0.0", "bool": "False"}.get(t, "None")))
        return "\n".join(lines) + "\n"
    if kind == "function":
        ind = "    " if method_of else ""
        first = "self, " if method_of else ""
        sig = ", ".join("%s: %s%s" % (n, t, (" = " + dv) if dv is not None else "") for n, t, dv, d in v["params"])
        lines = [ind + "def %s(%s%s):" % (name, first if sig else first.rstrip(", "), sig), ind + '    """', ind + "    %s" % v["doc"], ""]
        lines += [ind + "    :param %s: %s" % (n, d) for n, t, dv, d in v["params"]]
        lines += [ind + '    """']
        if body_extra:
            lines += [ind + "    " + ln for ln in body_extra.splitlines()]
        src = "\n".join(lines) + "\n"
        if method_of:
            src = "class %s(object):\n    marker: int = 0\n\n%s" % (method_of, src)
        return src
    if kind == "argparse_function":
        lines = ["def %s(argument_parser):" % name, '    """', "    Set CLI arguments", "",
                 "    :param argument_parser: argument parser", "    :type argument_parser: ```ArgumentParser```", "",
                 "    :returns: argument_parser", "    :rtype: ```ArgumentParser```", '    """',
                 "    argument_parser.description = %r" % v["doc"]]
        for n, t, dv, d in v["params"]:
            kw = []
            if t in ("int", "float", "bool"):
                kw.append("type=%s" % t)
            kw.append("help=%r" % d)
            if not t.startswith("Optional"):
                kw.append("required=True")
            if dv is not None and dv != "None":
                kw.append("default=%s" % dv)
            lines.append("    argument_parser.add_argument('--%s', %s)" % (n, ", ".join(kw)))
        if body_extra:
            lines += ["    " + ln for ln in body_extra.splitlines()]
        lines.append("    return argument_parser")
        return "\n".join(lines) + "\n"
    raise ValueError(kind)


NODEF_TEXT = "import os\n\nUNRELATED = 1\n"
HELPER_TEXT = "def helper(a, z=3):\n    return a\n"


TABLE_DOC = '"""\nModule notes\n\nname      value\nalpha         1\nbeta         22\n"""\n\n'
LAYOUTS = ("unterminated", "ws_tail", "dunder_all", "name_string", "tabledoc", "import_alias")


def apply_layout(kind, txt, layout, name=None):
    """Textual surroundings a hand-written file may have (the definition itself is untouched)."""
    defname = name or DEF_NAMES[kind]
    if layout == "unterminated":  # last line without newline
        return txt.rstrip("\n")
    if layout == "ws_tail":  # last line holds only indentation
        return txt + "    "
    if layout == "dunder_all":  # the definition's name appears as a string before it
        return '__all__ = ["%s"]\n\n' % defname + txt
    if layout == "name_string":
        return 'DEFAULT_TARGET = "%s"\n\n' % defname + txt
    if layout == "import_alias":  # an import of the same name under an alias precedes the definition
        return "from legacy.config import %s as _Legacy%s\n\n" % (defname, defname) + txt
    if layout == "tabledoc":  # module docstring with column-aligned text
        return TABLE_DOC + txt
    raise ValueError(layout)


def prestate_text(kind, state, truth_version, name=None, method_of=None):
    """Source text (or None = missing file) of a target pre-state.  ``<state>@<layout>`` adds surroundings."""
    if "@" in state:
        base, layout = state.split("@")
        return apply_layout(kind, prestate_text(kind, base, truth_version, name, method_of), layout, name)
    if state == "missing":
        return None
    if state == "empty":
        return ""
    if state == "nodef":
        return NODEF_TEXT
    if state == "stale":
        other = "v2" if truth_version != "v2" else "v1"
        return render(kind, other, name, method_of)
    if state == "agree":
        return render(kind, truth_version, name, method_of)
    if state == "reordered":
        txt = render(kind, truth_version, name, method_of, reverse=True)
        try:
            ast.parse(txt)
        except SyntaxError:  # reversed order would put a parameter without default after one with a default
            txt = render(kind, truth_version, name, method_of)
        return txt
    if state in VERSIONS:
        return render(kind, state, name, method_of)
    if state.startswith("helper+") and state[len("helper+"):] in VERSIONS:
        # an unrelated function precedes the definition
        return HELPER_TEXT + "\n\n" + render(kind, state[len("helper+"):], name, method_of)
    raise ValueError(state)


# ----------------------------------------------------------------------------- independent extractors (alpha)
_FIELD = re.compile(r"^\s*:(?:param|cvar)\s+(\w+):\s*(.*)$")


def _doc_prose(docstring):
    out = {}
    cur = None
    for ln in (docstring or "").splitlines():
        m = _FIELD.match(ln)
        if m:
            cur = m.group(1)
            out[cur] = m.group(2).strip()
        elif ln.strip().startswith(":"):
            cur = None
        elif cur and ln.strip():
            out[cur] += " " + ln.strip()
    return out


def _summary(docstring):
    for ln in (docstring or "").strip().splitlines():
        return ln.strip()
    return ""


def _lit(node):
    if node is None:
        return None
    try:
        return repr(ast.literal_eval(node))
    except Exception:
        return ast.unparse(node)


def find_def(tree, name_path):
    scope = tree
    for seg in name_path:
        nxt = None
        for n in getattr(scope, "body", []):
            if isinstance(n, (ast.ClassDef, ast.FunctionDef)) and n.name == seg:
                nxt = n
                break
        if nxt is None:
            return None
        scope = nxt
    return scope


def extract(kind, src, name_path):
    """Independent reading of the interface: {"doc":..., "params":[(name, typ, default_repr, prose)]} or a status str."""
    if src is None:
        return "missing"
    if src.strip() == "":
        return "empty"
    try:
        tree = ast.parse(src)
    except SyntaxError:
        return "syntax_error"
    node = find_def(tree, name_path)
    if node is None:
        return "nodef"
    doc = ast.get_docstring(node)
    prose = _doc_prose(doc)
    params = []
    if kind == "class":
        if not isinstance(node, ast.ClassDef):
            return "wrong_kind"
        for n in node.body:
            if isinstance(n, ast.AnnAssign) and isinstance(n.target, ast.Name):
                params.append((n.target.id, ast.unparse(n.annotation), _lit(n.value), _strip_default(prose.get(n.target.id))))
        return {"doc": _summary(doc), "params": params}
    if not isinstance(node, ast.FunctionDef):
        return "wrong_kind"
    if kind == "function":
        a = node.args
        pos = [x for x in a.args if x.arg not in ("self", "cls")]
        defaults = [None] * (len(a.args) - len(a.defaults)) + list(a.defaults)
        dmap = {x.arg: d for x, d in zip(a.args, defaults)}
        for x in pos:
            params.append((x.arg, ast.unparse(x.annotation) if x.annotation else None, _lit(dmap.get(x.arg)), _strip_default(prose.get(x.arg))))
        for x, d in zip(a.kwonlyargs, a.kw_defaults):
            params.append((x.arg, ast.unparse(x.annotation) if x.annotation else None, _lit(d), _strip_default(prose.get(x.arg))))
        return {"doc": _summary(doc), "params": params}
    # argparse function
    desc = ""
    for n in node.body:
        if isinstance(n, ast.Assign) and isinstance(n.targets[0], ast.Attribute) and n.targets[0].attr == "description":
            desc = ast.literal_eval(n.value)
        if isinstance(n, ast.Expr) and isinstance(n.value, ast.Call) and getattr(n.value.func, "attr", None) == "add_argument":
            nm = ast.literal_eval(n.value.args[0])[2:]
            kw = {k.arg: k.value for k in n.value.keywords}
            typ = ast.unparse(kw["type"]) if "type" in kw else "str"
            required = "required" in kw and ast.literal_eval(kw["required"])
            if not required:
                typ = "Optional[%s]" % typ
            params.append((nm, typ, _lit(kw.get("default")), _strip_default(ast.literal_eval(kw["help"]) if "help" in kw else None)))
    return {"doc": " ".join(desc.split()), "params": params}


def _strip_default(prose):
    if prose is None:
        return None
    return re.sub(r"\s*Defaults to .*$", "", prose, flags=re.S).rstrip()


def spec_interface(version):
    v = VERSIONS[version]
    return {"doc": v["doc"], "params": [(n, t, (repr(ast.literal_eval(dv)) if dv is not None else None), d) for n, t, dv, d in v["params"]]}


ZERO = {"int": "0", "str": "''", "float": "0.0", "bool": "False"}


def agrees(got, version, kind):
    """Does the independently extracted interface ``got`` describe ``version`` (modulo documented normalisations)?
    Returns (bool, list of mismatch descriptions)."""
    if not isinstance(got, dict):
        return False, ["status:" + str(got)]
    want = spec_interface(version)
    bad = []
    if [p[0] for p in got["params"]] != [p[0] for p in want["params"]]:
        bad.append("names:%s" % [p[0] for p in got["params"]])
        return False, bad
    if " ".join(got["doc"].split()) != want["doc"]:
        bad.append("summary:%r" % got["doc"][:40])
    for (n, t, dv, d), (gn, gt, gdv, gd) in zip(want["params"], got["params"]):
        if gt is not None and gt.replace(" ", "") != t.replace(" ", ""):
            bad.append("typ:%s=%s" % (n, gt))
        if gt is None and kind == "class":
            bad.append("typ:%s=None" % n)
        if dv is None:
            if gdv not in (None, "None", ZERO.get(t)):
                bad.append("default:%s=%s" % (n, gdv))
        elif dv == "None" and gdv in (None, "None"):
            pass  # an explicit None default and no default are the same thing for an optional option / argument
        elif gdv != dv:
            bad.append("default:%s=%s" % (n, gdv))
        if gd is not None and gd.rstrip(".") != d.rstrip("."):
            bad.append("doc:%s=%r" % (n, gd[:30]))
        if gd is None:
            bad.append("doc:%s=None" % n)
    return (not bad), bad


def classify(kind, src, name_path, versions=("v1", "v2")):
    """Abstraction alpha: Missing / Empty / NoDef / <version> / Other."""
    got = extract(kind, src, name_path)
    if isinstance(got, str):
        return {"missing": "Missing", "empty": "Empty", "nodef": "NoDef"}.get(got, "Other:" + got)
    for v in versions:
        if agrees(got, v, kind)[0]:
            return v
    return "Other"


# ----------------------------------------------------------------------------- drivers
class Project(object):
    """A directory with up to three files, one per kind."""

    def __init__(self, root, function_name="train", method_of=None):
        self.root = root
        self.function_name = function_name
        self.method_of = method_of
        self.files = dict(FILES)  # kind -> file name; two kinds may share one file
        os.makedirs(root, exist_ok=True)

    def path(self, kind):
        return os.path.join(self.root, self.files[kind])

    def name_of(self, kind):
        if kind == "function" and self.method_of:
            return ("%s . %s" if self.name_blanks else "%s.%s") % (self.method_of, self.function_name)
        if kind == "function":
            return self.function_name
        return (self.names or {}).get(kind, DEF_NAMES[kind])

    names = None  # optional {kind: dotted name} overriding the default definition names (e.g. a nested class)

    def name_path(self, kind):
        return [x.strip() for x in self.name_of(kind).split(".")]

    def write(self, kind, text):
        p = self.path(kind)
        if text is None:
            if os.path.exists(p):
                os.unlink(p)
        else:
            with open(p, "w") as f:
                f.write(text)

    def read(self, kind):
        p = self.path(kind)
        if not os.path.exists(p):
            return None
        with open(p) as f:
            return f.read()

    def snapshot(self):
        out = {}
        for fn in sorted(os.listdir(self.root)):
            p = os.path.join(self.root, fn)
            if os.path.isfile(p):
                with open(p, "rb") as f:
                    out[fn] = f.read()
        return out

    def restore(self, snap):
        for fn in os.listdir(self.root):
            p = os.path.join(self.root, fn)
            if os.path.isfile(p) and fn not in snap:
                os.unlink(p)
        for fn, b in snap.items():
            with open(os.path.join(self.root, fn), "wb") as f:
                f.write(b)

    extra = None  # optional {kind: [extra file names]}: further targets of that kind in the same invocation

    def extra_paths(self, k):
        return [os.path.join(self.root, fn) for fn in (self.extra or {}).get(k, [])]

    truth_last = False  # API only: list the truth file after the other files of its kind
    tilde = False  # spell every path as ~/<file> (HOME is pointed at the project directory for the call)
    name_blanks = False  # spell a dotted function name with blanks around the dot

    def spelled(self, p):
        return "~/" + os.path.basename(p) if self.tilde else p

    def namespace(self, truth, kinds):
        ns = {"truth": truth}
        for k in KINDS:
            plural = {"class": "classes", "function": "functions", "argparse_function": "argparse_functions"}[k]
            names = {"class": "class_names", "function": "function_names", "argparse_function": "argparse_function_names"}[k]
            files = [self.path(k)] + self.extra_paths(k)
            if self.truth_last and k == truth:
                files = files[1:] + files[:1]
            ns[plural] = [self.spelled(f) for f in files] if k in kinds else None
            ns[names] = [self.name_of(k)] if k in kinds else None
        return Namespace(**ns)

    def argv(self, truth, kinds):
        argv = ["sync", "--truth", truth]
        flag = {"class": "--class", "function": "--function", "argparse_function": "--argparse-function"}
        for k in KINDS:
            if k in kinds:
                argv += [flag[k], self.spelled(self.path(k)), flag[k] + "-name", self.name_of(k)]
                for p in self.extra_paths(k):
                    argv += [flag[k], self.spelled(p)]
        return argv

    def sync(self, truth, kinds, via="api"):
        """Run sync; returns (exception or None, report OrderedDict or None, stdout text)."""
        boot.boot(need_cli=True)
        from doctrans.conformance import ground_truth
        from doctrans.__main__ import main

        old_home = os.environ.get("HOME")
        if self.tilde:
            os.environ["HOME"] = self.root
        with boot.quiet() as q:
            try:
                if via == "api":
                    rep = ground_truth(self.namespace(truth, kinds), os.path.realpath(self.path(truth)))
                else:
                    rep = main(self.argv(truth, kinds))
                exc = None
            except BaseException as e:
                if isinstance(e, KeyboardInterrupt):
                    raise
                rep, exc = None, e
            finally:
                if self.tilde:
                    if old_home is None:
                        os.environ.pop("HOME", None)
                    else:
                        os.environ["HOME"] = old_home
        return exc, rep, q.out.getvalue()
