"""
C01 - docstring round trip (rest / numpydoc / google).  E1, exhaustive over IR space x style x options.
"""
from mc import alphabets as al
from mc import core, roundtrip as rt
from mc.core import site


# written from the three style guides, not imported from doctrans
SECTION_TOKENS = {
    "rest": (":param", ":type", ":return", ":rtype"),
    "numpydoc": ("Parameters\n----------", "Returns\n-------"),
    "google": ("Args:", "Returns:"),
}


class C01(core.Check):
    id = "C01"
    level = "exploration"
    rule = ("every IR of S_A (<=1 parameter from the full 282-atom alphabet x 6 return entries x kwargs x 3 summaries) "
            "and S_B (parameter sequences of length 2..3 over the 12 reduced atoms x 3 returns x kwargs) is emitted with "
            "emit.docstring in each style/option combination and parsed back with parse.docstring; non-trivial = the "
            "IR has a parameter or a return entry; distinct = distinct emitted text")
    assumptions = ("prose acceptance set {p, p+'.'} optionally followed by a 'Defaults to' sentence",
                   "absent type may come back absent / object / type name of the default")

    def space(self):
        irs = al.ir_space(self.tier, with_b4=False)
        # (style, emitter default text, word wrap, parser keeps default sentence in prose)
        if self.tier == "thorough":
            opts = [(s, e, w, p) for s in rt.DOC_KINDS for e in (True, False) for w in (True, False) for p in (True, False)]
        else:
            opts = [(s, True, True, True) for s in rt.DOC_KINDS] + [("rest", False, True, True), ("numpydoc", True, False, True)]
            opts += [(s, True, True, False) for s in rt.DOC_KINDS]
        self._irs, self._opts = irs, opts
        return _Space(irs, opts)

    def run_case(self, case):
        atoms, ret, ir = al.case_ir(case)
        style, edd, ww, pedd = case["style"], case["edd"], case["ww"], case["pedd"]
        base = {"style": style, "edd": edd, "ww": ww, "pedd": pedd}
        cf = dict(base, **rt.case_facts(case, atoms, ret))
        spy = rt.StyleSpy()
        try:
            text = rt.emit_kind(style, ir, {"edd": edd, "ww": ww})
        except Exception as e:
            return [site(False, dict(cf, field="emit"), fail="emit_raise", **core.exc_obs(e))], None, "emit-raise"
        nontrivial = text if (atoms or ret is not None or case["kwargs"]) else None
        spy.reset()
        try:
            back = rt.parse_kind(style, text, {"pedd": pedd})
        except Exception as e:
            return [site(False, dict(cf, field="parse"), fail="parse_raise", **core.exc_obs(e))], nontrivial, "parse-raise"
        sites = [site(True, dict(cf, field="parse"))]
        seen = spy.styles()
        if any(tok in text for tok in SECTION_TOKENS[style]):
            sites.append(site(seen == [style], dict(cf, field="style"), fail="style_misread", got=seen))
        _, _, ir0 = al.case_ir(case)
        sites += rt.compare(base, atoms, ret, case, ir0, back, {"check_default": edd})
        return sites, nontrivial, [text, [s["ok"] for s in sites]]


class _Space(core.Space):
    def __init__(self, irs, opts):
        self.irs, self.opts = irs, opts

    def __len__(self):
        return len(self.irs) * len(self.opts)

    def __getitem__(self, i):
        j, o = divmod(i, len(self.opts))
        c = dict(self.irs[j])
        c["style"], c["edd"], c["ww"], c["pedd"] = self.opts[o]
        return c

    def describe(self):
        return {"irs": self.irs.describe(), "option_combinations": [list(o) for o in self.opts],
                "size": len(self)}


CHECK = C01
