"""C02 - config-class round trip.  E1, exhaustive over IR space x {default text} x {word wrap}."""
from mc import roundtrip as rt


class C02(rt.RoundTrip):
    id = "C02"
    kind = "class"
    level = "exploration"
    rule = ("every IR of S_A u S_B is emitted with emit.class_ (to_code), re-parsed with ast.parse and read back with "
            "parse.class_ for each option combination; non-trivial = has a parameter or return entry; distinct = "
            "distinct emitted source text")
    assumptions = ("permitted normalisation: a parameter without default may acquire the zero value of its scalar type or None",
                   "absent type may come back absent / object / type name of the default")
    policy = {"absent_default": ("absent", "zero", "none"), "ret_absent_default": ("absent", "zero", "none"), "summary_exact": True, "none_for_any_type": True, "default_sentence": "stripped"}

    def option_list(self):
        # one deviation per remaining option: the class is emitted with a __call__ (emit_call), the parser infers types
        dev = [{"edd": False, "ww": True, "call": True}, {"edd": False, "ww": True, "pinfer": True}]
        if self.tier == "thorough":
            return [{"edd": e, "ww": w} for e in (False, True) for w in (True, False)] + dev + [{"edd": True, "ww": True, "pinfer": True}]
        return [{"edd": False, "ww": True}, {"edd": True, "ww": True}] + dev


CHECK = C02
