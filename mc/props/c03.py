"""C03 - function / method round trip.  E1 over IR space x kind x inline types x keyword-only x indent."""
from mc import core, roundtrip as rt
from mc.core import site


class C03(rt.RoundTrip):
    id = "C03"
    kind = "function"
    level = "exploration"
    rule = ("every IR of S_A u S_B is emitted with emit.function for each (function type, inline types, keyword-only, "
            "docstring indent) combination, re-parsed with ast.parse and read back with parse.function; non-trivial = has "
            "a parameter or return entry; distinct = distinct emitted source text")
    assumptions = ("C03 constrains explicit defaults only: a parameter without default may come back without one, or "
                   "with None / the zero value of its type",
                   "absent type may come back absent / object / type name of the default")
    policy = {"absent_default": ("absent", "none", "zero"), "ret_absent_default": ("absent",)}

    def option_list(self):
        indents = (2, 0, 1) if self.tier == "thorough" else (2,)
        return [{"ft": ft, "inline": inl, "kwonly": kw, "indent": ind, "edd": False, "ww": True}
                for ind in indents for ft in ("static", "self", "cls") for inl in (True, False) for kw in (True, False)]

    def extra_sites(self, case, atoms, ret, text, back, cf):
        want = case["opts"]["ft"]
        return [site(back.get("type") == want, dict(cf, field="function_type"), fail="function_type", got=back.get("type"))]


CHECK = C03
