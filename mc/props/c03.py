"""C03 - function / method round trip.  E1 over IR space x kind x inline types x keyword-only x indent."""
from mc import core, roundtrip as rt
from mc.core import site


class C03(rt.RoundTrip):
    id = "C03"
    kind = "function"
    level = "exploration"
    rule = ("every IR of S_A u S_B is emitted with emit.function for each (function type, inline types, keyword-only, "
            "docstring indent) combination, re-parsed with ast.parse and read back with parse.function; non-trivial = has "
            "a parameter or return entry; distinct = distinct emitted source text")
    assumptions = ("C03 constrains explicit defaults only: a parameter without default may come back without one, or "
                   "with None / the zero value of its type",
                   "absent type may come back absent / object / type name of the default")
    policy = {"absent_default": ("absent", "none", "zero"), "ret_absent_default": ("absent",), "summary_exact": True, "none_for_any_type": True, "default_sentence": "stripped"}

    def all_options(self, indents):
        return [{"ft": ft, "inline": inl, "kwonly": kw, "indent": ind, "edd": False, "ww": True}
                for ind in indents for ft in ("static", "self", "cls") for inl in (True, False) for kw in (True, False)]

    def space(self):
        from mc import alphabets as al

        if self.tier == "thorough":
            full = self.all_options((2, 0, 1))
            full = full + [dict(o, septab=True) for o in self.all_options((2,))] + [dict(o, pinfer=True) for o in self.all_options((2,))[:4]]
            return core.Concat(rt.OptSpace(al.ir_space(self.tier), full),
                               rt.OptSpace(al.S_B((2,)), [dict(o, ftnone=True) for o in self.all_options((2,))]))
        full = self.all_options((2,))
        # quick: atom-exhaustive space x 6 combinations (each kind, each flag value), sequence space x 3
        qa = [o for o in full if (o["ft"], o["inline"], o["kwonly"]) in (
            ("static", True, True), ("static", False, False), ("self", True, False), ("self", False, True),
            ("cls", True, True), ("cls", False, False))]
        qb = [o for o in full if (o["ft"], o["inline"], o["kwonly"]) in (
            ("static", True, True), ("self", False, False), ("cls", True, False))]
        # collision pairs x every combination; plus the "name and type taken from the IR" call form (function_name=None,
        # function_type=None) for each function type
        qn = [dict(o, ftnone=True) for o in qb]
        # one deviation from the default emitter options: emit_separating_tab
        qa = qa + [dict(o, septab=True) for o in qa[:2]] + [dict(qa[1], pinfer=True)]
        qb = qb + [dict(qb[1], septab=True)]
        return core.Concat(rt.OptSpace(al.S_A(), qa), rt.OptSpace(al.S_B(), qb), rt.OptSpace(al.S_D(), full),
                           rt.OptSpace(al.S_B((2,)), qn), rt.OptSpace(al.S_W(), full))

    def extra_sites(self, case, atoms, ret, text, back, cf):
        want = case["opts"]["ft"]
        return [site(back.get("type") == want, dict(cf, field="function_type"), fail="function_type", got=back.get("type"))]


CHECK = C03
