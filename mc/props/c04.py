"""C04 - argparse-function round trip.  E1 over the argparse-expressible part of the IR space x options."""
from mc import alphabets as al
from mc import roundtrip as rt

EXPRESSIBLE = {"Literal[-1, 0, 1]", "Literal['None', 'x']", "Literal['x[', 'y[']", "Literal[0, 1]", "Literal['', 'x']", "Literal['1', '2']", al.ABSENT, "str", "int", "float", "bool", "Optional[str]", "Optional[int]", "List[str]", "List[int]",
               "Literal['x', 'y']", "Literal[1, 2]", "Optional[Literal['x', 'y']]", "Optional[float]"}


def expressible(case):
    if any(a[0] not in EXPRESSIBLE for a in case["atoms"]):
        return False
    r = case["ret"]
    return r is None or r[0] in EXPRESSIBLE or r[0] in ("Tuple[int, str]",)


class C04(rt.RoundTrip):
    id = "C04"
    kind = "argparse"
    level = "exploration"
    rule = ("every argparse-expressible IR of S_A u S_B (scalar / Optional / List / Literal parameter types, kwargs) is emitted "
            "with emit.argparse_function, re-parsed and read back with parse.argparse_ast for each option combination; "
            "non-trivial = has an option or return entry; distinct = distinct emitted source text")
    assumptions = ("permitted normalisations: a required option without default acquires the zero value of its type; an "
                   "untyped option is read as str / Optional[str]; an option that is not required is Optional[...]",)
    policy = {"absent_default": ("absent", "zero", "none"), "ret_absent_default": ("absent",),
              "type_extra": ("str", "Optional[str]"), "zero_typ_fallback": "str", "ret_only_with_default": True, "summary_exact": True, "default_sentence": "stripped_if_edd_off"}

    def ir_filter(self):
        return expressible, "argparse-expressible types only"

    def option_list(self):
        if self.tier == "thorough":
            return ([{"edd": e, "ww": w} for e in (False, True) for w in (True, False)]
                    + [{"edd": e, "ww": w, "ddoc": True} for e in (False, True) for w in (True, False)]
                    + [{"edd": e, "ww": True, "wrapdesc": True} for e in (False, True)])
        # ddoc: the prose handed to the emitter already carries the 'Defaults to ...' sentence
        return [{"edd": False, "ww": True}, {"edd": True, "ww": True}, {"edd": False, "ww": False},
                {"edd": False, "ww": True, "ddoc": True}, {"edd": True, "ww": True, "ddoc": True},
                {"edd": False, "ww": True, "wrapdesc": True}]


CHECK = C04
