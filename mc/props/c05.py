"""
C05 - any-to-any convertibility preserves the interface.  E2: explicit exploration of the conversion graph.

State   = (kind, artefact text) reached from an original IR
Event   = "convert to kind K'"  = emit_K'(parse_K(text))    (the real doctrans functions)
Explored: from each of the 7 kinds, every chain of distinct kinds up to length 3 (7 + 42 + 210 = 259 path nodes
          per IR; thorough: length 4, 1099 path nodes), conversions memoised per (kind, text, target) so that
          converging chains share states.  On *every* path node the artefact is parsed and compared with the
          original description.
"""
from mc import alphabets as al
from mc import core, refmodel as rm, roundtrip as rt
from mc.core import site
from mc.props.c04 import expressible as argparse_expressible

KIND_OPTS = {
    "rest": {"edd": True, "ww": True}, "numpydoc": {"edd": True, "ww": True}, "google": {"edd": True, "ww": True},
    "class": {"edd": False, "ww": True}, "function": {"edd": False, "ww": True, "ft": "static"},
    "method": {"edd": False, "ww": True, "ft": "self"}, "argparse": {"edd": False, "ww": True},
}


# second option set (one deviation per kind): types in the docstring and positional parameters for function / method,
# default text on for class / argparse, word wrap off for the docstring kinds
KIND_OPTS_B = {
    "rest": {"edd": True, "ww": False}, "numpydoc": {"edd": True, "ww": False}, "google": {"edd": True, "ww": False},
    "class": {"edd": True, "ww": True}, "function": {"edd": False, "ww": True, "ft": "static", "inline": False, "kwonly": False},
    "method": {"edd": False, "ww": True, "ft": "self", "inline": False, "kwonly": False}, "argparse": {"edd": True, "ww": True},
}


class _Cases(core.Space):
    def __init__(self, irs, optset=None):
        self.irs = irs
        self.optset = optset

    def __len__(self):
        return len(self.irs) * len(rt.KINDS)

    def __getitem__(self, i):
        j, k = divmod(i, len(rt.KINDS))
        c = dict(self.irs[j])
        c["start"] = rt.KINDS[k]
        if self.optset:
            c["optset"] = self.optset
        return c

    def describe(self):
        return {"irs": self.irs.describe(), "start_kinds": list(rt.KINDS), "size": len(self)}


def spec_ir(version):
    """Reference IR of a hand-written interface version (mc/project.py)."""
    import ast as _ast
    from collections import OrderedDict

    from mc import project as pj

    v = pj.VERSIONS[version]
    params = OrderedDict()
    for n, t, dv, d in v["params"]:
        p = {"typ": t, "doc": d}
        if dv is not None:
            val = _ast.literal_eval(dv)
            p["default"] = al.NONE_STR if val is None else val
        params[n] = p
    return {"name": None, "type": "static", "doc": v["doc"], "params": params, "returns": None}


class _Hand(core.Space):
    """Hand-written (not doctrans-emitted) start artefacts: interface version x start kind."""

    KINDS = ("class", "function", "argparse")

    def __init__(self):
        from mc import project as pj

        self.items = [(v, k) for v in sorted(pj.VERSIONS) for k in self.KINDS]

    def __len__(self):
        return len(self.items)

    def __getitem__(self, i):
        return {"hand": self.items[i][0], "start": self.items[i][1]}

    def describe(self):
        return {"hand_written_starts": len(self.items)}


class C05(core.Check):
    id = "C05"
    level = "model_checking"
    rule = ("explicit-state exploration of the conversion graph: for every IR of S_C (parameter sequences of length 0..2 over "
            "13 atoms x 3 returns x kwargs) and every start kind, all chains of distinct kinds up to the depth bound are "
            "executed on the real emit/parse functions; a state is (kind, text); every path node is checked against the "
            "original IR; chains through argparse are in scope only for argparse-expressible IRs")
    assumptions = ("permitted normalisations accumulate along a chain: absent default -> zero value / None after a class, "
                   "function or argparse hop; untyped -> str / Optional[str] after an argparse hop; a return entry without "
                   "default cannot be expressed by an argparse function and may be lost there",)

    def depth(self):
        return 4 if self.tier == "thorough" else 3

    def space(self):
        return core.Concat(_Cases(al.S_C()), _Hand(),
                           _Cases(al.IRSpace(al.A_CHAIN, (0, 1) if self.tier == "quick" else (0, 1, 2), al.RETURNS_RED, al.KWARGS, (0,)), "B"))

    def policy_for(self, chain):
        code_hop = any(k in ("class", "function", "method", "argparse") for k in chain)
        ap = "argparse" in chain
        pol = {"absent_default": ("absent", "zero", "none") if code_hop else ("absent",),
               "ret_absent_default": ("absent", "zero", "none") if "class" in chain else ("absent",)}
        if ap:
            pol.update({"type_extra": ("str", "Optional[str]"), "zero_typ_fallback": "str", "ret_only_with_default": True})
        return pol

    def run_hand(self, case):
        """Chains that start from source text a user wrote (positional parameters without default before defaulted
        ones, annotations, :param lines) instead of from text doctrans emitted."""
        from mc import project as pj

        version, start = case["hand"], case["start"]
        kind = "argparse_function" if start == "argparse" else start
        text0 = pj.render(kind, version, "f" if start == "function" else None)
        ref = spec_ir(version)
        pref = rm.project(ref)
        sites, states, transitions, memo = [], set(), [0], {}

        def convert(k, text, target):
            key = (k, text, target)
            if key not in memo:
                try:
                    memo[key] = ("ok", rt.emit_kind(target, rt.parse_kind(k, text), KIND_OPTS[target]))
                except Exception as e:
                    memo[key] = ("raise", core.exc_obs(e))
            transitions[0] += 1
            return memo[key]

        def check(chain, text):
            base = {"chain": ">".join(chain), "hand": version}
            try:
                back = rm.project(rt.parse_kind(chain[-1], text))
            except Exception as e:
                sites.append(site(False, dict(base, field="parse"), fail="parse_raise", **core.exc_obs(e)))
                return
            pol = self.policy_for(chain)
            names = [p[0] for p in back["params"]]
            sites.append(site(names == [p[0] for p in pref["params"]], dict(base, field="names"), fail="names", got=names))
            got = {p[0]: p for p in back["params"]}
            for name, typ, doc, default in pref["params"]:
                if name not in got:
                    continue
                _, otyp, odoc, odef = got[name]
                f = dict(base, pname=name)
                sites.append(site(rm.type_ok(typ, otyp, default, pol.get("type_extra", ())) or otyp == "Optional[%s]" % typ, dict(f, field="typ"),
                                  fail="typ", got=otyp))
                sites.append(site(rm.prose_ok(doc, odoc), dict(f, field="doc"), fail="doc", got=odoc))
                sites.append(site(rm.default_ok(default, odef, pol.get("absent_default", ("absent",)), typ), dict(f, field="default"),
                                  fail="default", got=list(odef) if odef != rm.ABSENT else odef))

        def walk(chain, text):
            states.add((chain[-1], text))
            check(chain, text)
            if len(chain) >= self.depth():
                return
            for k in rt.KINDS:
                if k in chain:
                    continue
                st, val = convert(chain[-1], text, k)
                if st == "raise":
                    sites.append(site(False, {"chain": ">".join(chain + [k]), "hand": version, "field": "convert"}, fail="convert_raise", **val))
                    continue
                walk(chain + [k], val)

        walk([start], text0)
        # the same conversions as sync composes them: parse(truth file) -> emit into a target file that does not exist yet
        import os
        import shutil
        import tempfile

        d = tempfile.mkdtemp(prefix="c05_")
        try:
            P = pj.Project(d)
            P.function_name = "f"
            P.write(kind, text0)
            for target in pj.KINDS:
                if target == kind:
                    continue
                exc, rep, out = P.sync(kind, [k for k in pj.KINDS if k in (kind, target)], "api")
                tk = "argparse" if target == "argparse_function" else target
                chain = [start, "sync:" + tk]
                transitions[0] += 1
                if exc is not None:
                    sites.append(site(False, {"chain": ">".join(chain), "hand": version, "field": "convert"}, fail="convert_raise", **core.exc_obs(exc)))
                    continue
                txt = P.read(target)
                states.add((chain[-1], txt))
                # judged exactly like the in-memory conversion start -> target
                n0 = len(sites)
                check([start, tk], txt)
                for st_ in sites[n0:]:
                    st_["facts"]["chain"] = ">".join(chain)
                P.write(target, None)
        finally:
            shutil.rmtree(d, ignore_errors=True)
        return (sites, [start, text0], [sorted(states), transitions[0]],
                {"states": states, "transitions": transitions[0], "traces_validated_against_impl": transitions[0]})

    def run_case(self, case):
        if "hand" in case:
            return self.run_hand(case)
        atoms, ret, ir = al.case_ir(case)
        start = case["start"]
        ap_ok = argparse_expressible(case)
        sites = []
        states = set()
        transitions = [0]
        memo = {}
        kind_opts = KIND_OPTS_B if case.get("optset") == "B" else KIND_OPTS

        def convert(kind, text, target):
            key = (kind, text, target)
            if key not in memo:
                try:
                    mid = rt.parse_kind(kind, text)
                    memo[key] = ("ok", rt.emit_kind(target, mid, kind_opts[target]))
                except Exception as e:
                    memo[key] = ("raise", core.exc_obs(e))
            transitions[0] += 1
            return memo[key]

        def check(chain, text):
            base = {"chain": ">".join(chain)}
            if case.get("optset"):
                base["optset"] = case["optset"]
            cf = dict(base, **rt.case_facts(case, atoms, ret))
            try:
                back = rt.parse_kind(chain[-1], text)
            except Exception as e:
                sites.append(site(False, dict(cf, field="parse"), fail="parse_raise", **core.exc_obs(e)))
                return
            _, _, ir0 = al.case_ir(case)
            sites.extend(s for s in rt.compare(base, atoms, ret, case, ir0, back, self.policy_for(chain))
                         if s["facts"].get("field") != "summary" or len(chain) == 1 or True)

        def walk(chain, text):
            states.add((chain[-1], text))
            check(chain, text)
            if len(chain) >= self.depth():
                return
            for k in rt.KINDS:
                if k in chain or (k == "argparse" and not ap_ok):
                    continue
                st, val = convert(chain[-1], text, k)
                if st == "raise":
                    sites.append(site(False, dict({"chain": ">".join(chain + [k])}, field="convert",
                                                  **rt.case_facts(case, atoms, ret)), fail="convert_raise", **val))
                    continue
                walk(chain + [k], val)

        if start == "argparse" and not ap_ok:
            return [], None, "out-of-scope"
        try:
            t0 = rt.emit_kind(start, ir, kind_opts[start])
        except Exception as e:
            return ([site(False, dict({"chain": start}, field="emit", **rt.case_facts(case, atoms, ret)), fail="emit_raise",
                          **core.exc_obs(e))], None, "emit-raise")
        walk([start], t0)
        return (sites, [start, t0], [sorted(states), transitions[0]],
                {"states": states, "transitions": transitions[0], "traces_validated_against_impl": transitions[0]})

    def execute(self, pool):
        agg, extra = super().execute(pool)
        return agg, extra


CHECK = C05
