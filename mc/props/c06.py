"""
C06 - emitted code is valid Python that behaves as the IR says.  Oracle: the Python interpreter itself
(compile, exec, inspect.signature, class __dict__/__annotations__, a real argparse.ArgumentParser) - never
doctrans' own parsers.
"""
import argparse
import ast
import inspect
import json
import os
import shutil
import tempfile
import typing

from mc import alphabets as al
from mc import core, refmodel as rm, roundtrip as rt
from mc.core import site


# ----------------------------------------------------------------------------- stub namespace
class _Stub(object):
    """Comparable stand-in for third-party objects (np.ndarray, np.empty(0), tf...)."""

    def __init__(self, path):
        self._p = path

    def __getattr__(self, k):
        if k.startswith("__"):
            raise AttributeError(k)
        return _Stub(self._p + "." + k)

    def __call__(self, *a, **kw):
        return _Stub("%s(%s)" % (self._p, ", ".join([repr(x) for x in a] + ["%s=%r" % i for i in sorted(kw.items())])))

    def __eq__(self, o):
        return isinstance(o, _Stub) and o._p == self._p

    def __hash__(self):
        return hash(self._p)

    def __repr__(self):
        return "<%s>" % self._p


def namespace():
    ns = {k: getattr(typing, k) for k in ("Optional", "List", "Literal", "Union", "Tuple", "Any", "Dict")}
    ns.update({"np": _Stub("np"), "tf": _Stub("tf"), "loads": json.loads, "ArgumentParser": argparse.ArgumentParser,
               "a": 41, "b": 42, "c": 43, "d": 44})
    return ns


def struct(node):
    """Structural form of an AST that ignores absent-vs-empty optional fields and position attributes."""
    if isinstance(node, ast.UnaryOp) and isinstance(node.op, (ast.USub, ast.UAdd)) and isinstance(node.operand, ast.Constant) \
            and type(node.operand.value) in (int, float, complex):
        # the parser never produces negative constants: -3 is UnaryOp(USub, 3); fold so both spellings compare equal
        v = node.operand.value
        return ("Constant", ("value", ("v", type(v).__name__, repr(-v if isinstance(node.op, ast.USub) else v))))
    if isinstance(node, ast.AST):
        out = [type(node).__name__]
        for f in node._fields:
            v = getattr(node, f, None)
            if v is None or v == []:
                continue
            if f == "kind" and isinstance(node, ast.Constant):
                continue
            out.append((f, struct(v)))
        return tuple(out)
    if isinstance(node, list):
        return tuple(struct(x) for x in node)
    return ("v", type(node).__name__, repr(node))


def strip_docstrings(tree):
    for n in ast.walk(tree):
        body = getattr(n, "body", None)
        if isinstance(body, list) and body and isinstance(body[0], ast.Expr) and isinstance(body[0].value, ast.Constant) \
                and isinstance(body[0].value.value, str):
            body[0].value.value = " ".join(body[0].value.value.split())
    return tree


def py_value(d, ns):
    """Canonical default -> python value."""
    if d == rm.ABSENT:
        return rm.ABSENT
    if d[0] == "none":
        return None
    if d[0] in ("int", "bool", "str"):
        return d[1]
    if d[0] == "float":
        return float(d[1])
    if d[0] == "code":
        return eval(d[1], dict(ns))
    raise ValueError(d)


def same_value(a, b):
    return type(a) is type(b) and a == b


class C06(core.Check):
    id = "C06"
    level = "exploration"
    rule = ("every IR of S_A u S_B x every emitter option combination is emitted as class / function (static, self, cls) / "
            "argparse function; the source must compile, its tree must survive unparse/re-parse and emit.file (with and "
            "without black), and the executed artefact must expose exactly the IR's interface (class attributes and "
            "annotations, inspect.signature, argparse action table); non-trivial = has a parameter or return entry; "
            "distinct = distinct emitted source")
    assumptions = ("third-party names (np, tf) are comparable stubs", "a parameter without default must have no default in "
                   "a signature; a class attribute / argparse option without default may hold None or the zero value of "
                   "its scalar type (documented normalisation)",
                   "black re-indents docstrings by design: the formatted file is compared modulo runs of whitespace inside docstrings",
                   "required flag reference: an option is required iff it has no default and its type is not Optional[...]")

    def option_list(self):
        th = self.tier == "thorough"
        out = []
        for edd, ww in ([(False, True), (True, True), (False, False), (True, False)] if th else [(False, True), (True, True)]):
            out.append({"kind": "class", "edd": edd, "ww": ww})
            out.append({"kind": "argparse", "edd": edd, "ww": ww})
        for ft in ("static", "self", "cls"):
            for inline in (True, False):
                for kwonly in (True, False):
                    for indent in ((2, 0, 1) if th else (2,)):
                        out.append({"kind": "function", "ft": ft, "inline": inline, "kwonly": kwonly, "indent": indent,
                                    "edd": False, "ww": True})
        # one deviation from the remaining default options per emitter
        out.append({"kind": "argparse", "edd": False, "ww": True, "wrapdesc": True})
        out.append({"kind": "argparse", "edd": False, "ww": True, "ddoc": True})
        out.append({"kind": "class", "edd": False, "ww": True, "ddoc": True})
        out.append({"kind": "function", "ft": "static", "inline": True, "kwonly": True, "indent": 2, "edd": False, "ww": True, "ddoc": True})
        out.append({"kind": "function", "ft": "cls", "inline": False, "kwonly": False, "indent": 2, "edd": False, "ww": True, "ddoc": True})
        out.append({"kind": "function", "ft": "static", "inline": True, "kwonly": True, "indent": 2, "edd": False, "ww": True, "septab": True})
        out.append({"kind": "function", "ft": "self", "inline": False, "kwonly": False, "indent": 2, "edd": False, "ww": True, "septab": True})
        return out

    def space(self):
        if self.tier == "thorough":
            full = self.option_list()
            qn = [dict(o, ftnone=True) for o in full if o["kind"] == "function" and o["indent"] == 2]
            return core.Concat(rt.OptSpace(al.ir_space(self.tier), full), rt.OptSpace(al.S_B((2,)), qn))
        full = self.option_list()
        qa = [o for o in full if o["kind"] != "function" or (o["ft"], o["inline"], o["kwonly"]) in (
            ("static", True, True), ("static", False, False), ("self", True, False), ("cls", False, True))]
        qn = [dict(o, ftnone=True) for o in full if o["kind"] == "function" and o["inline"] != o["kwonly"]]
        dev = [o for o in qa if o.get("ddoc") or o.get("septab") or o.get("wrapdesc")]  # option deviations
        plain = [o for o in qa if o not in dev]
        # the deviations are independent of summary form and kwargs: atom-exhaustive space restricted to one of each
        one = rt.Filtered(al.S_A(), lambda c: c["summary"] == 0 and not c["kwargs"], "first summary form, no kwargs")
        return core.Concat(rt.OptSpace(al.S_A(), plain), rt.OptSpace(al.S_B((2,)), full), rt.OptSpace(al.S_D(), full + qn),
                           rt.OptSpace(al.S_W(), qa), rt.OptSpace(one, dev))

    # -------------------------------------------------------------------------------- run
    def run_case(self, case):
        from doctrans import emit
        from doctrans.source_transformer import to_code

        atoms, ret, ir = al.case_ir(case)
        opts = case["opts"]
        kind = opts["kind"]
        base = dict(("o." + k, v) for k, v in sorted(opts.items()))
        cf = dict(base, **rt.case_facts(case, atoms, ret))
        # --- emit the node (same calls as roundtrip.emit_kind, but we need the node itself)
        if opts.get("ddoc"):
            rt.add_default_text(ir)  # the prose already carries its 'Defaults to ...' sentence
        try:
            if kind == "class":
                node = emit.class_(ir, class_name="ConfigClass", word_wrap=opts["ww"], emit_default_doc=opts["edd"])
            elif kind == "argparse":
                node = emit.argparse_function(ir, emit_default_doc=opts["edd"], word_wrap=opts["ww"],
                                              **({"wrap_description": True} if opts.get("wrapdesc") else {}))
            else:
                fn, fty = "f", opts["ft"]
                if opts.get("ftnone"):  # name and type are taken from the IR (the documented Optional arguments)
                    ir["name"], ir["type"], fn, fty = "f", opts["ft"], None, None
                node = emit.function(ir, function_name=fn, function_type=fty, word_wrap=opts["ww"],
                                     **({"emit_separating_tab": True} if opts.get("septab") else {}),
                                     emit_default_doc=opts["edd"], indent_level=opts["indent"],
                                     inline_types=opts["inline"], emit_as_kwonlyargs=opts["kwonly"])
            text = to_code(node)
        except Exception as e:
            return [site(False, dict(cf, field="emit"), fail="emit_raise", **core.exc_obs(e))], None, "emit-raise"
        nontrivial = text if (atoms or ret is not None or case["kwargs"]) else None
        sites = []
        # --- (a) syntax
        try:
            tree = ast.parse(text)
            compile(tree, "<emitted>", "exec")
            sites.append(site(True, dict(cf, field="compile")))
        except SyntaxError as e:
            return [site(False, dict(cf, field="compile"), fail="syntax_error", msg=core.short(str(e), 80))], nontrivial, "syntax"
        # --- (b) tree stability
        s_node, s_tree = struct(node), struct(tree.body[0])
        sites.append(site(s_node == s_tree, dict(cf, field="tree.node_vs_reparsed"), fail="tree_differs",
                          where=core.short(first_struct_diff(s_node, s_tree), 120)))
        again = ast.parse(ast.unparse(tree))
        sites.append(site(struct(again) == struct(tree), dict(cf, field="tree.second_unparse"), fail="tree_differs"))
        # --- (c) file emission (only for one option set per kind: file emission does not depend on the others)
        if self.file_case(opts, case):
            sites += self.file_sites(emit, node, tree, cf)
        # --- (d) behaviour
        _, _, ir0 = al.case_ir(case)
        pin = rm.project(ir0)
        ns = namespace()
        try:
            exec(compile(tree, "<emitted>", "exec"), ns)
        except Exception as e:
            sites.append(site(False, dict(cf, field="exec"), fail="exec_raise", exc=type(e).__name__, msg=core.short(str(e), 80)))
            return sites, nontrivial, [text, "exec-raise"]
        try:
            if kind == "class":
                sites += self.class_sites(ns["ConfigClass"], pin, atoms, ret, case, base)
            elif kind == "argparse":
                sites += self.argparse_sites(ns["set_cli_args"], pin, atoms, ret, case, base, opts)
            else:
                sites += self.function_sites(ns["f"], pin, atoms, ret, case, base, opts)
        except Exception as e:
            if type(e).__name__ in ("AssertionError",):
                raise
            sites.append(site(False, dict(cf, field="behaviour"), fail="inspect_raise", exc=type(e).__name__,
                              msg=core.short(str(e), 80)))
        return sites, nontrivial, [text, [s["ok"] for s in sites]]

    def file_case(self, opts, case):
        """File emission does not depend on the function options or the summary; run it once per IR and kind
        (quick: only for the first summary form)."""
        if opts.get("ddoc") or opts.get("septab") or opts.get("wrapdesc") or opts.get("ftnone"):
            return False
        if opts["kind"] == "function" and not (opts["ft"] == "static" and opts["indent"] == 2 and opts["inline"] and opts["kwonly"]):
            return False
        if opts["kind"] != "function" and not (opts["edd"] is False and opts["ww"] is True):
            return False
        return self.tier == "thorough" or case["summary"] == 0

    def file_sites(self, emit, node, tree, cf):
        out = []
        d = tempfile.mkdtemp(prefix="c06_")
        try:
            for skip_black in (True, False):
                fn = os.path.join(d, "out_%s.py" % skip_black)
                f = dict(cf, field="file.black" if not skip_black else "file.plain")
                try:
                    import copy

                    emit.file(copy.deepcopy(node), fn, mode="wt", skip_black=skip_black)
                    with open(fn) as fh:
                        src = fh.read()
                    ftree = ast.parse(src)
                except Exception as e:
                    out.append(site(False, f, fail="file_raise", exc=type(e).__name__, msg=core.short(str(e), 80)))
                    continue
                if skip_black:
                    out.append(site(struct(ftree) == struct(tree), f, fail="file_tree_differs"))
                else:
                    modws = struct(strip_docstrings(ftree)) == struct(strip_docstrings(ast.parse(ast.unparse(tree))))
                    out.append(site(modws, dict(f, sub="modulo_docstring_whitespace"), fail="file_tree_differs"))
            # two emissions into one file (append mode), every skip_black combination: the file must still parse and
            # hold both definitions
            second = ast.parse("def appended_after(x=1):\n    return x\n").body[0]
            for sb1 in (True, False):
                for sb2 in (True, False):
                    fn = os.path.join(d, "two_%s_%s.py" % (sb1, sb2))
                    f = dict(cf, field="file.append", first_black=not sb1, second_black=not sb2)
                    try:
                        import copy

                        emit.file(copy.deepcopy(node), fn, mode="wt", skip_black=sb1)
                        emit.file(copy.deepcopy(second), fn, mode="a", skip_black=sb2)
                        with open(fn) as fh:
                            t2 = ast.parse(fh.read())
                        names = [getattr(n, "name", None) for n in t2.body]
                        ok = len(t2.body) == 2 and names[1] == "appended_after" and struct(strip_docstrings(t2.body[0])) == struct(strip_docstrings(ast.parse(ast.unparse(tree)).body[0]))
                        out.append(site(ok, f, fail="appended_file_wrong", names=names))
                    except SyntaxError:
                        out.append(site(False, f, fail="appended_file_does_not_parse"))
                    except Exception as e:
                        out.append(site(False, f, fail="file_raise", exc=type(e).__name__, msg=core.short(str(e), 80)))
        finally:
            shutil.rmtree(d, ignore_errors=True)
        return out

    # -------------------------------------------------------------------------------- per-kind behaviour
    def _param_iter(self, pin, atoms, ret, case, base):
        for pos, (name, typ, doc, default) in enumerate(pin["params"]):
            if name == "kwargs":
                f = dict(base, role="kwargs", **rt.ctx_facts(atoms, len(atoms), ret, True))
            else:
                f = dict(base, role="param", **al.atom_facts(atoms[pos]))
                f.update(rt.ctx_facts(atoms, pos, ret, case["kwargs"]))
            yield name, typ, doc, default, f

    def class_sites(self, cls, pin, atoms, ret, case, base):
        ns = namespace()
        sites = []
        cf = dict(base, **rt.case_facts(case, atoms, ret))
        want = [p[0] for p in pin["params"]] + (["return_type"] if pin["ret"] is not None else [])
        got = [k for k in cls.__dict__ if not k.startswith("__")]
        sites.append(site(got == want, dict(cf, field="class.attributes"), fail="attributes", got=got))
        ann = cls.__dict__.get("__annotations__", {})
        entries = list(self._param_iter(pin, atoms, ret, case, base))
        if pin["ret"] is not None:
            rf = dict(base, role="return", **rt.ctx_facts(atoms, len(atoms), ret, case["kwargs"]))
            rf.update(al.atom_facts((ret[0], ret[2], ret[1])))
            entries.append(("return_type", pin["ret"][0], pin["ret"][1], pin["ret"][2], rf))
        for name, typ, doc, default, f in entries:
            if name not in cls.__dict__:
                continue
            val = cls.__dict__[name]
            # value
            if default == rm.ABSENT:
                zero = rm.ZERO.get(typ, None)
                ok = val is None or (typ in rm.ZERO and same_value(val, zero))
            else:
                try:
                    ok = same_value(val, py_value(default, ns))
                except Exception:
                    ok = False
            sites.append(site(ok, dict(f, field="class.value"), fail="value", got=core.short(repr(val), 60)))
            # annotation
            if typ is not None:
                try:
                    wa = eval(typ, dict(ns))
                    ok = name in ann and ann[name] == wa
                except Exception:
                    ok = False
            else:
                ok = name not in ann or ann[name] is object or (default != rm.ABSENT and ann[name] is type(val))
            sites.append(site(ok, dict(f, field="class.annotation"), fail="annotation", got=core.short(repr(ann.get(name, "<none>")), 60)))
        return sites

    def function_sites(self, fn, pin, atoms, ret, case, base, opts):
        ns = namespace()
        sites = []
        cf = dict(base, **rt.case_facts(case, atoms, ret))
        sig = inspect.signature(fn)
        params = list(sig.parameters.values())
        lead = [] if opts["ft"] == "static" else [opts["ft"]]
        want = lead + [p[0] for p in pin["params"]]
        got = [p.name for p in params]
        sites.append(site(got == want, dict(cf, field="sig.names"), fail="names", got=got))
        byname = {p.name: p for p in params}
        for name, typ, doc, default, f in self._param_iter(pin, atoms, ret, case, base):
            if name not in byname:
                continue
            p = byname[name]
            if name == "kwargs":
                sites.append(site(p.kind is p.VAR_KEYWORD, dict(f, field="sig.kind"), fail="kind", got=str(p.kind)))
                continue
            wk = p.KEYWORD_ONLY if opts["kwonly"] else p.POSITIONAL_OR_KEYWORD
            sites.append(site(p.kind is wk, dict(f, field="sig.kind"), fail="kind", got=str(p.kind)))
            if default == rm.ABSENT:
                ok = p.default is p.empty
            else:
                try:
                    ok = p.default is not p.empty and same_value(p.default, py_value(default, ns))
                except Exception:
                    ok = False
            sites.append(site(ok, dict(f, field="sig.default"), fail="default",
                              got="<empty>" if p.default is p.empty else core.short(repr(p.default), 60)))
            if opts["inline"] and typ is not None:
                try:
                    ok = p.annotation is not p.empty and p.annotation == eval(typ, dict(ns))
                except Exception:
                    ok = False
            else:
                ok = p.annotation is p.empty
            sites.append(site(ok, dict(f, field="sig.annotation"), fail="annotation",
                              got="<empty>" if p.annotation is p.empty else core.short(repr(p.annotation), 60)))
        rf = dict(base, role="return", **rt.ctx_facts(atoms, len(atoms), ret, case["kwargs"]))
        if ret is not None:
            rf.update(al.atom_facts((ret[0], ret[2], ret[1])))
        rtyp = pin["ret"][0] if pin["ret"] is not None else None
        if opts["inline"] and rtyp is not None:
            try:
                ok = sig.return_annotation is not sig.empty and sig.return_annotation == eval(rtyp, dict(ns))
            except Exception:
                ok = False
        else:
            ok = sig.return_annotation is sig.empty
        sites.append(site(ok, dict(rf, field="sig.return_annotation"), fail="annotation",
                          got="<empty>" if sig.return_annotation is sig.empty else core.short(repr(sig.return_annotation), 60)))
        return sites

    def argparse_sites(self, fn, pin, atoms, ret, case, base, opts):
        ns = namespace()
        sites = []
        cf = dict(base, **rt.case_facts(case, atoms, ret))
        parser = argparse.ArgumentParser(prog="x", add_help=False)
        res = fn(parser)
        sites.append(site(rm.wsn(parser.description or "") == pin["doc"], dict(cf, field="ap.description"), fail="description",
                          got=core.short(parser.description or "", 60)))
        rp = res[0] if isinstance(res, tuple) else res
        sites.append(site(rp is parser, dict(cf, field="ap.returns_parser"), fail="return_value", got=type(res).__name__))
        acts = list(parser._actions)
        got = [a.option_strings[0] if a.option_strings else a.dest for a in acts]
        want = ["--" + p[0] for p in pin["params"]]
        sites.append(site(got == want, dict(cf, field="ap.options"), fail="options", got=got))
        by = {a.option_strings[0]: a for a in acts if a.option_strings}
        for name, typ, doc, default, f in self._param_iter(pin, atoms, ret, case, base):
            a = by.get("--" + name)
            if a is None:
                continue
            is_kw = name == "kwargs"
            t = typ or "str"
            optional = t.startswith("Optional[")
            inner = t[len("Optional["):-1] if optional else t
            is_list = inner.startswith("List[")
            elem = inner[len("List["):-1] if is_list else inner
            choices = None
            if elem.startswith("Literal["):
                choices = tuple(ast.literal_eval("(%s,)" % elem[len("Literal["):-1]))
                elem = type(choices[0]).__name__
            scalar = {"str": str, "int": int, "float": float, "bool": bool}.get(elem)
            if not is_kw:
                # type callable
                wt = scalar if scalar is not None else str
                ok = (a.type is wt) or (wt is str and a.type is None)
                if typ is None and default != rm.ABSENT and default[0] in ("int", "float", "bool"):
                    ok = ok or getattr(a.type, "__name__", None) == default[0]  # type inferred from the default
                sites.append(site(ok, dict(f, field="ap.type"), fail="type", got=getattr(a.type, "__name__", repr(a.type))))
                gc = tuple(a.choices) if a.choices is not None else None
                sites.append(site(gc == choices, dict(f, field="ap.choices"), fail="choices", got=repr(gc)))
                is_append = type(a).__name__ == "_AppendAction"
                sites.append(site(is_append == is_list, dict(f, field="ap.action"), fail="action", got=type(a).__name__))
                want_req = (default == rm.ABSENT) and not optional
                sites.append(site(bool(a.required) == want_req, dict(f, field="ap.required"), fail="required", got=bool(a.required)))
            # default
            if default == rm.ABSENT:
                ok = a.default is None or (scalar is not None and not is_list and same_value(a.default, rm.ZERO[scalar.__name__]))
            else:
                try:
                    ok = same_value(a.default, py_value(default, ns))
                except Exception:
                    ok = False
            sites.append(site(ok, dict(f, field="ap.default"), fail="default", got=core.short(repr(a.default), 60)))
            # help
            sites.append(site(rm.prose_ok(doc, rm.wsn(a.help) if a.help else None), dict(f, field="ap.help"), fail="help",
                              got=core.short(a.help or "", 80)))
        return sites


def first_struct_diff(a, b, path=""):
    if a == b:
        return ""
    if not isinstance(a, tuple) or not isinstance(b, tuple) or len(a) != len(b) or (a and b and a[0] != b[0] and isinstance(a[0], str)):
        return "%s: %s != %s" % (path, core.short(repr(a), 50), core.short(repr(b), 50))
    for i, (x, y) in enumerate(zip(a, b)):
        if x != y:
            label = x[0] if isinstance(x, tuple) and x and isinstance(x[0], str) else str(i)
            return first_struct_diff(x, y, path + "/" + label)
    return path


CHECK = C06
