"""
C07 - parsing user-written code is faithful to Python's own view of it.

Programs (E1, exhaustive): every signature with p<=3 positional parameters (d<=p trailing defaults), q<=2 keyword-only
parameters (each with / without default), optional **kwargs, total <= 4 (quick: <= 3); annotations all / none /
alternating; a docstring in each style documenting *every subset* of the parameters, in signature or reversed
order; as plain function, self method, cls method and class + __init__ (merge_inner_function).
Oracle: inspect.signature of the exec'ed definition.
Order independence (E5): the partially documented programs are re-parsed in fresh interpreters under further
hash seeds and must give the same parameter order.
"""
import ast
import hashlib
import inspect
import itertools
import json
import os
import subprocess
import sys

from mc import boot, core, refmodel as rm
from mc.core import site

# declaration order is deliberately not alphabetical, and the first name is a substring of "self" / "cls"
POS = ["s", "b", "e"]
KW = ["z1", "k2"]
ANN = {"s": "int", "b": "str", "e": "float", "z1": "bool", "k2": "Optional[int]"}
DEFAULTS = {"s": "1", "b": "'two'", "e": "3.5", "z1": "True", "k2": "None"}
DOC_DEFAULTS = {"s": 0, "b": "zero", "e": 0.0, "z1": False, "k2": 0}  # what the docstring claims in 'conflict' mode
# variant 2: less common types and default values (compound types on defaulted parameters, a one-character quote string,
# a negative int, an exponent float, zero on an Optional)
ANN_X = {"s": "Union[int, float]", "b": "Optional[str]", "e": "float", "z1": "bool", "k2": "Optional[int]"}
DEFAULTS_X = {"s": "-1", "b": "'\"'", "e": "1e-07", "z1": "False", "k2": "0"}
# variant 3: the docstring states a type that differs from the annotation (documented information takes precedence)
DOC_TYPE_ALT = {"s": "float", "b": "Optional[str]", "e": "int", "z1": "Optional[bool]", "k2": "int"}
STYLES = ("rest", "numpydoc", "google")
FORMS = ("function", "self", "cls", "class_init", "class_init_nested_before", "class_init_nested_after", "class_init_module",
         # the same definitions handed over as live objects (imported from a module file that is rewritten for every case
         # under the same module name and the same qualified names)
         "live_function", "live_class_init",
         # a class whose interface is its attributes (annotated or plain assignments), documented by :cvar lines
         "class_attrs",
         # a class merged with a static method of its own (no receiver argument)
         "class_static_merge",
         # a plain function whose second / third positional parameters are *called* cls and self (ordinary parameters there)
         "function_recv")
RECV_POS = ["s", "cls", "self"]
for _d in (ANN, DEFAULTS, DOC_DEFAULTS, ANN_X, DEFAULTS_X, DOC_TYPE_ALT):
    _d["cls"], _d["self"] = _d["b"], _d["e"]
# the class + __init__ form in richer surroundings: a nested helper class with its own __init__ before / after the
# outer __init__; a module (searched by class name) whose earlier class has a name that is a suffix of the wanted one
HELPER = "    class Helper(object):\n        def __init__(self, key, value=2):\n            self.key = key\n\n"
SIBLING = ('class K(object):\n    """\n    Another one\n\n    :cvar verbose: the verbose\n    """\n\n'
           '    def __init__(self, verbose=True):\n        pass\n\n\n')


def signatures(max_total):
    out = []
    for p in range(0, 4):
        for d in range(0, p + 1):
            for q in range(0, 3):
                if p + q > max_total:
                    continue
                for kwmask in itertools.product((False, True), repeat=q):
                    for kwargs in (False, True):
                        out.append((p, d, q, kwmask, kwargs))
    return out


def build_cases(tier):
    max_total = 4 if tier == "thorough" else 3
    cases = []
    for (p, d, q, kwmask, kwargs) in signatures(max_total):
        names = POS[:p] + KW[:q] + (["kwargs"] if kwargs else [])
        for ann in ("all", "none", "alt"):
            for style in STYLES:
                subsets = []
                for r in range(len(names) + 1):
                    subsets += list(itertools.combinations(range(len(names)), r))
                for sub in subsets:
                    orders = ("sig", "rev") if len(sub) > 1 else ("sig",)
                    for order in orders:
                        for form in FORMS:
                            if tier == "quick" and style != "rest" and form not in ("function", "class_init"):
                                continue
                            if (form.startswith("class_init_") or form.startswith("live_")) and tier == "quick" and ann == "alt":
                                continue
                            if form == "function_recv" and p < 2:
                                continue  # identical to the plain function
                            if form == "class_attrs" and not (d == p and all(kwmask) and not kwargs and p + q > 0):
                                continue  # every attribute holds a value; an attribute-less class has no interface
                            cases.append((p, d, q, kwmask, kwargs, ann, style, sub, order, form, 0))
                            # docstring states a (falsy) default that differs from the signature's: documented wins
                            has_sig_default = any((i < p and i >= p - d) or (p <= i < p + q and kwmask[i - p]) for i in sub)
                            if has_sig_default and order == "sig" and form not in ("class_attrs", "function_recv") and (tier == "thorough" or (style == "rest" and ann != "alt")):
                                cases.append((p, d, q, kwmask, kwargs, ann, style, sub, order, form, 1))
                            if order == "sig" and ann != "alt" and form in ("function", "class_init", "live_function", "class_static_merge") and \
                                    (tier == "thorough" or style == "rest"):
                                cases.append((p, d, q, kwmask, kwargs, ann, style, sub, order, form, 2))
                            if order == "sig" and ann == "all" and style != "rest" and sub and form in ("function", "class_init", "live_function"):
                                cases.append((p, d, q, kwmask, kwargs, ann, style, sub, order, form, 3))
    return cases


def render(case):
    """Return (source, definition name path, expected list of (name, annotation or None, default src or None))."""
    p, d, q, kwmask, kwargs, ann, style, sub, order, form, docdef = case
    variant, docdef = docdef, docdef == 1
    ANN, DEFAULTS = (ANN_X, DEFAULTS_X) if variant == 2 else (globals()["ANN"], globals()["DEFAULTS"])
    POS = RECV_POS if form == "function_recv" else globals()["POS"]
    names = POS[:p] + KW[:q] + (["kwargs"] if kwargs else [])
    sig_has_default = set(POS[p - d:p] if d else []) | set(n for j, n in enumerate(KW[:q]) if kwmask[j])

    def prose(n):
        if docdef and n in sig_has_default:
            v = DOC_DEFAULTS[n]
            return "the %s. Defaults to %s" % (n, ('"%s"' % v) if isinstance(v, str) else v)
        return "the %s" % n

    def annotated(i, n):
        return n != "kwargs" and (ann == "all" or (ann == "alt" and i % 2 == 0))

    parts = []
    exp = []
    for i, n in enumerate(POS[:p]):
        has_def = i >= p - d
        s = n + (": %s" % ANN[n] if annotated(i, n) else "") + ((" = " if annotated(i, n) else "=") + DEFAULTS[n] if has_def else "")
        parts.append(s)
        exp.append((n, ANN[n] if annotated(i, n) else None, DEFAULTS[n] if has_def else None))
    if q:
        parts.append("*")
        for j, n in enumerate(KW[:q]):
            i = p + j
            has_def = kwmask[j]
            s = n + (": %s" % ANN[n] if annotated(i, n) else "") + ((" = " if annotated(i, n) else "=") + DEFAULTS[n] if has_def else "")
            parts.append(s)
            exp.append((n, ANN[n] if annotated(i, n) else None, DEFAULTS[n] if has_def else None))
    if kwargs:
        parts.append("**kwargs")
        exp.append(("kwargs", None, None))
    documented = [names[i] for i in sub]
    if order == "rev":
        documented = documented[::-1]
    doc_types = {}
    lines = []
    live = form.startswith("live_")
    form = {"live_function": "function", "live_class_init": "class_init", "function_recv": "function"}.get(form, form)
    ind = "        " if form != "function" else "    "
    if style == "rest":
        for n in documented:
            lines.append(":param %s: %s" % (n, prose(n)))
            if n != "kwargs" and ann == "none":
                lines.append(":type %s: ```%s```" % (n, ANN[n]))
                doc_types[n] = ANN[n]
    elif style == "numpydoc":
        if documented:
            lines += ["Parameters", "----------"]
        for n in documented:
            t = (DOC_TYPE_ALT if variant == 3 else ANN).get(n, "dict")
            lines += ["%s : %s" % (n, t), "    %s" % prose(n)]
            doc_types[n] = t
    else:
        if documented:
            lines.append("Args:")
        for n in documented:
            t = (DOC_TYPE_ALT if variant == 3 else ANN).get(n, "dict")
            lines.append("  %s (%s): %s" % (n, t, prose(n)))
            doc_types[n] = t
    doc = "\n".join([ind + '"""', ind + "Summary of it", ""] + [(ind + ln) if ln else "" for ln in lines] + [ind + '"""'])
    sig = ", ".join(parts)
    if form == "class_static_merge":
        cdoc = doc.replace(":param ", ":cvar ") if style == "rest" else doc
        cdoc = "\n".join(ln[4:] if ln.startswith("        ") else ln for ln in cdoc.split("\n"))
        src = "class K(object):\n%s\n\n    @staticmethod\n    def build(%s):\n        return None\n" % (cdoc, sig)
    elif form == "class_attrs":
        cdoc = doc.replace(":param ", ":cvar ") if style == "rest" else doc
        cdoc = "\n".join(ln[4:] if ln.startswith("        ") else ln for ln in cdoc.split("\n"))
        attrs = "".join("    %s%s = %s\n" % (n, (": %s" % a) if a else "", dv) for n, a, dv in exp)
        src = "class K(object):\n%s\n\n%s" % (cdoc, attrs)
    elif form == "function":
        src = "def f(%s):\n%s\n    return None\n" % (sig, doc)
    elif form in ("self", "cls"):
        deco = "    @classmethod\n" if form == "cls" else ""
        src = "class K(object):\n%s    def f(%s%s):\n%s\n        return None\n" % (deco, form, (", " + sig) if sig else "", doc)
    else:
        # class + __init__: the class docstring documents the subset (as :cvar / the style's section), __init__ is bare
        cdoc = doc.replace(":param ", ":cvar ") if style == "rest" else doc
        cdoc = "\n".join(ln[4:] if ln.startswith("        ") else ln for ln in cdoc.split("\n"))
        init = "    def __init__(self%s):\n        pass\n" % ((", " + sig) if sig else "")
        if form == "class_init_nested_before":
            init = HELPER + init
        elif form == "class_init_nested_after":
            init = init + "\n" + HELPER
        src = "class %s(object):\n%s\n\n%s" % ("TrainK" if form == "class_init_module" else "K", cdoc, init)
        if form == "class_init_module":
            src = SIBLING + src
    return src, exp, documented, doc_types


_LIVE = {}


def live_object(src, name):
    """Write ``src`` to <private dir>/c07live.py, import it afresh and return the named object."""
    import importlib
    import tempfile

    if "dir" not in _LIVE:
        _LIVE["dir"] = tempfile.mkdtemp(prefix="c07live_%d_" % os.getpid())
        import atexit
        import shutil

        atexit.register(shutil.rmtree, _LIVE["dir"], True)
        sys.path.insert(0, _LIVE["dir"])
    path = os.path.join(_LIVE["dir"], "c07live.py")
    with open(path, "w") as f:
        f.write("from typing import Optional, Union\n" + src)
    sys.modules.pop("c07live", None)
    importlib.invalidate_caches()
    import linecache

    linecache.clearcache()  # inspect.getsource must read the file just written, never a cached predecessor
    return getattr(importlib.import_module("c07live"), name)


def parse_case(case, src):
    from doctrans import parse

    form = case[9]
    if form == "live_function":
        return parse.function(live_object(src, "f"))
    if form == "live_class_init":
        return parse.class_(live_object(src, "K"), merge_inner_function="__init__")
    tree = ast.parse(src)
    if form in ("function", "function_recv"):
        return parse.function(tree.body[0])
    if form in ("self", "cls"):
        fn = [n for n in tree.body[0].body if isinstance(n, ast.FunctionDef)][0]
        return parse.function(fn)
    if form == "class_attrs":
        return parse.class_(tree.body[0])
    if form == "class_static_merge":
        return parse.class_(tree.body[0], merge_inner_function="build")
    if form == "class_init_module":
        return parse.class_(tree, class_name="TrainK", merge_inner_function="__init__")
    return parse.class_(tree.body[0], merge_inner_function="__init__")


def python_view(case, src):
    import typing

    ns = {"Optional": typing.Optional, "Union": typing.Union}
    exec(compile(src, "<c07>", "exec"), ns)
    form = {"live_function": "function", "live_class_init": "class_init", "function_recv": "function"}.get(case[9], case[9])
    if form == "class_attrs":
        return [(n, "ATTRIBUTE", v) for n, v in ns["K"].__dict__.items() if not n.startswith("__")]
    if form == "class_static_merge":
        sig = inspect.signature(ns["K"].build)
        return [(n, prm.kind.name, None if prm.default is prm.empty else prm.default) for n, prm in sig.parameters.items()]
    obj = ns["f"] if form == "function" else (ns["K"].__dict__["f"] if form in ("self", "cls") else
                                             ns["TrainK" if form == "class_init_module" else "K"].__init__)
    if isinstance(obj, classmethod):
        obj = obj.__func__
    sig = inspect.signature(obj)
    out = []
    for i, (n, prm) in enumerate(sig.parameters.items()):
        if n in ("self", "cls") and i == 0 and form != "function":
            continue
        out.append((n, prm.kind.name, None if prm.default is prm.empty else prm.default))
    return out


class _Space(core.Space):
    def __init__(self, tier):
        self.cases = build_cases(tier)

    def __len__(self):
        return len(self.cases)

    def __getitem__(self, i):
        return {"c": list(self.cases[i])}

    def describe(self):
        return {"programs": len(self.cases)}


def case_tuple(case):
    c = case["c"]
    return (c[0], c[1], c[2], tuple(c[3]), c[4], c[5], c[6], tuple(c[7]), c[8], c[9], c[10])


class C07(core.Check):
    id = "C07"
    level = "exploration"
    rule = ("every generated definition (signature shape x annotation mode x docstring style x documented subset x "
            "documentation order x function / self method / cls method / class+__init__) is parsed with parse.function "
            "or parse.class_(merge_inner_function='__init__') and compared with inspect.signature of the exec'ed "
            "definition; the partially documented ones are re-parsed under further PYTHONHASHSEED values; "
            "non-trivial = at least one parameter; distinct = distinct source text")
    assumptions = ("a parameter without default may come back without default; **kwargs may come back with default None and "
                   "type Optional[dict]", "a type absent from signature and docstring may come back absent or as the type name "
                   "of the default value")

    def space(self):
        if not hasattr(self, "_sp"):
            self._sp = _Space(self.tier)
        return self._sp

    def run_case(self, case):
        c = case_tuple(case)
        src, exp, documented, doc_types = render(c)
        p, d, q, kwmask, kwargs, ann, style, sub, order, form, docdef = c
        variant, docdef = docdef, docdef == 1
        n = p + q + (1 if kwargs else 0)
        und = n - len(sub)
        base = {"form": form, "style": style, "ann": ann, "order": order if len(sub) > 1 else "-",
                "n": n, "n_doc": len(sub), "shape": "p%dd%dq%d%s%s" % (p, d, q, "".join("D" if m else "-" for m in kwmask), "K" if kwargs else ""),
                "documented": ",".join(documented), "doc_states_default": bool(docdef)}
        if variant > 1:
            base["variant"] = {2: "uncommon_types_and_values", 3: "doc_type_differs"}[variant]
        pv = python_view(c, src)
        assert [x[0] for x in pv] == [e[0] for e in exp], (pv, exp)
        try:
            ir = parse_case(c, src)
        except Exception as e:
            return [site(False, dict(base, field="parse"), fail="parse_raise", **core.exc_obs(e))], (src if n else None), "raise"
        sites = [site(True, dict(base, field="parse"))]
        got_names = list(ir["params"].keys())
        want_names = [e[0] for e in exp]
        sites.append(site(got_names == want_names, dict(base, field="names"), fail="names", got=got_names))
        if form in ("function", "function_recv", "self", "cls", "live_function"):
            want_type = {"self": "self", "cls": "cls"}.get(form, "static")
            sites.append(site(ir.get("type") == want_type, dict(base, field="function_type", want=want_type), fail="function_type", got=ir.get("type")))
        for pos, (name, annot, dsrc) in enumerate(exp):
            if name not in ir["params"]:
                continue
            prm = ir["params"][name]
            f = dict(base, field=None, pname=name, pos=pos, p_documented=name in documented, p_annotated=annot is not None,
                     p_default=dsrc is not None, p_kind=pv[pos][1])
            # default
            pd = rm.norm_default(prm.get("default"), "default" in prm)
            if name == "kwargs":
                ok = pd in (rm.ABSENT, ("none",))
            elif dsrc is None:
                ok = pd == rm.ABSENT
            elif docdef and name in documented:
                ok = pd == rm.norm_default(DOC_DEFAULTS[name])  # documented information takes precedence
            else:
                ok = pd == rm.norm_default(pv[pos][2])
            sites.append(site(ok, dict(f, field="default"), fail="default", got=list(pd) if pd != rm.ABSENT else pd))
            # type
            pt = rm.norm_type(prm.get("typ")) if prm.get("typ") else None
            if name == "kwargs":
                ok = pt in (None, "Optional[dict]", "dict")
            elif variant == 3 and name in doc_types:
                ok = pt == rm.norm_type(doc_types[name])  # documented information takes precedence
            elif annot is not None:
                ok = pt == rm.norm_type(annot)
            elif name in doc_types:
                ok = pt == rm.norm_type(doc_types[name])
            else:
                eff = DOC_DEFAULTS[name] if (docdef and name in documented and dsrc is not None) else pv[pos][2]
                ok = pt is None or (dsrc is not None and pt == type(eff).__name__) or pt == "object"
            sites.append(site(ok, dict(f, field="typ"), fail="typ", got=pt))
            # prose
            pdoc = rm.wsn(prm["doc"]) if prm.get("doc") else None
            want = ("the %s" % name) if name in documented else None
            sites.append(site(rm.prose_ok(want, pdoc), dict(f, field="doc"), fail="doc", got=pdoc))
        return sites, (src if n else None), [src, [s["ok"] for s in sites]]

    # ---------------------------------------------------------------- hash-seed sweep over the merge cases
    def seed_indices(self):
        sp = self.space()
        idx = []
        for i, c in enumerate(sp.cases):
            n = c[0] + c[2] + (1 if c[4] else 0)
            if n - len(c[7]) >= 2 and c[6] == "rest" and c[9] in ("function", "class_init", "class_init_module") and not c[10]:
                idx.append(i)
        return idx

    def execute(self, pool):
        agg, extra = super().execute(pool)
        seeds = list(range(1, 9)) if self.tier == "quick" else list(range(1, 33))
        idx = self.seed_indices()
        ref = seed_run(self.tier, idx, None)
        procs = []
        for s in seeds:
            env = dict(os.environ, PYTHONHASHSEED=str(s), VERIF_REPO=boot.REPO, PYTHONDONTWRITEBYTECODE="1")
            procs.append((s, subprocess.Popen([sys.executable, "-B", "-m", "mc.props.c07", self.tier], env=env, cwd=core.HOME,
                                              stdout=subprocess.PIPE, stderr=subprocess.PIPE, text=True)))
        orders_seen = set()
        for s, pr in procs:
            out, err = pr.communicate()
            if pr.returncode != 0:
                agg.harness_errors.append({"index": -1, "case": "seed %d" % s, "tb": err[-800:]})
                continue
            data = json.loads(out)
            orders_seen.add(tuple(data["probe"]))
            for i in idx:
                c = self.space().cases[i]
                facts = {"field": "names_across_seeds", "form": c[9], "style": c[6], "ann": c[5],
                         "shape": "p%dd%dq%d%s" % (c[0], c[1], c[2], "K" if c[4] else ""), "documented": ",".join(str(x) for x in c[7])}
                ok = data["names"][str(i)] == ref["names"][str(i)]
                st = site(ok, facts, fail="order_depends_on_hash_seed", got=data["names"][str(i)], seed0=ref["names"][str(i)])
                agg.add_case(i, None, [st], [i, s], None)
        extra.update({"hash_seeds": [0] + seeds, "seed_sweep_programs": len(idx),
                      "distinct_set_orders_witnessed_for_probe_set": len(orders_seen) + 1})
        return agg, extra


def seed_run(tier, idx, _):
    boot.boot()
    chk = C07(tier=tier)
    sp = chk.space()
    names = {}
    for i in idx:
        c = sp.cases[i]
        src = render(c)[0]
        try:
            names[str(i)] = list(parse_case(c, src)["params"].keys())
        except Exception as e:
            names[str(i)] = ["RAISE:" + type(e).__name__]
    d1 = dict.fromkeys(POS + KW)
    return {"names": names, "probe": list(d1.keys() - {POS[0]: 1}.keys())}


CHECK = C07

if __name__ == "__main__":
    tier = sys.argv[1]
    chk = C07(tier=tier)
    print(json.dumps(seed_run(tier, chk.seed_indices(), None)))
