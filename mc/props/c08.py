"""
C08 - conversion is a normalisation that stabilises after one pass.

For every IR x kind x option set:  t1 = emit(ir); t2 = emit(parse(t1)); t3 = emit(parse(t2)).
Obligation: t2 == t3 byte for byte (one normalising pass is allowed between t1 and t2).  A fourth and
fifth pass are also run (thorough) so slow drift that needs more passes to show is seen.
"""
import difflib

from mc import alphabets as al
from mc import core, roundtrip as rt
from mc.core import site


def first_diff(a, b):
    la, lb = a.splitlines(), b.splitlines()
    for i, (x, y) in enumerate(zip(la, lb)):
        if x != y:
            return "%d: %r -> %r" % (i, core.short(x.strip(), 70), core.short(y.strip(), 70))
    if len(la) != len(lb):
        return "line count %d -> %d" % (len(la), len(lb))
    return "whitespace/newline only"


def diff_class(a, b):
    """Coarse description of how text grew/changed (stable across inputs)."""
    sm = difflib.SequenceMatcher(None, a, b, autojunk=False)
    ins, dele = [], []
    for tag, i1, i2, j1, j2 in sm.get_opcodes():
        if tag in ("replace", "delete"):
            dele.append(a[i1:i2])
        if tag in ("replace", "insert"):
            ins.append(b[j1:j2])
    return {"inserted": core.short("|".join(ins), 60), "deleted": core.short("|".join(dele), 60),
            "delta_len": len(b) - len(a)}


class C08(core.Check):
    id = "C08"
    level = "exploration"
    rule = ("for every IR of S_A u S_B, every kind in {rest, numpydoc, google, class, function, method, argparse} and "
            "every option set: emit, then (parse, emit) repeatedly with the same options; texts of pass 2 and pass 3 "
            "(and 4, 5 in the thorough tier) must be byte-identical; cases whose first emit/parse raises are counted "
            "separately (they belong to C01-C04); non-trivial = the IR has a parameter or return entry and pass 2 "
            "was reached; distinct = distinct (kind, options, pass-1 text)")
    assumptions = ("a raise in the first emit or parse is not a C08 obligation (C01-C04 report it)",)

    def option_list(self):
        out = []
        th = self.tier == "thorough"
        for k in rt.DOC_KINDS:
            for edd, ww in ([(True, True), (False, True), (True, False), (False, False)] if th else [(True, True), (False, True)]):
                out.append({"kind": k, "edd": edd, "ww": ww})
        for edd, ww in ([(False, True), (True, True), (False, False), (True, False)] if th else [(False, True), (True, True)]):
            out.append({"kind": "class", "edd": edd, "ww": ww})
            out.append({"kind": "argparse", "edd": edd, "ww": ww})
        for kind, ft in (("function", "static"), ("method", "self")):
            for inline in (True, False):
                for kwonly in (True, False):
                    for indent in ((2, 0, 1) if th else (2,)):
                        out.append({"kind": kind, "ft": ft, "inline": inline, "kwonly": kwonly, "indent": indent,
                                    "edd": False, "ww": True})
        out.append({"kind": "argparse", "edd": False, "ww": True, "wrapdesc": True})
        out.append({"kind": "function", "ft": "static", "inline": True, "kwonly": True, "indent": 2, "edd": False, "ww": True, "septab": True})
        out.append({"kind": "method", "ft": "self", "inline": False, "kwonly": False, "indent": 2, "edd": False, "ww": True, "septab": True})
        out.append({"kind": "function", "ft": "static", "inline": True, "kwonly": True, "indent": 2, "edd": True, "ww": True})
        out.append({"kind": "method", "ft": "self", "inline": False, "kwonly": False, "indent": 2, "edd": True, "ww": True})
        if th:
            out.append({"kind": "method", "ft": "cls", "inline": True, "kwonly": True, "indent": 2, "edd": False, "ww": True})
        return out

    def space(self):
        if self.tier == "thorough":
            return core.Concat(rt.OptSpace(al.ir_space(self.tier), self.option_list()), _Cross(al.S_C()))
        full = self.option_list()
        keep = []
        seen = set()
        for o in full:  # quick, atom-exhaustive part: one option set per kind plus the second default-text setting
            key = (o["kind"], o.get("edd"), o.get("inline"), o.get("kwonly"), o.get("septab"), o.get("wrapdesc"))
            if o["kind"] in rt.DOC_KINDS and not (o["edd"] or o["kind"] == "rest"):
                continue
            if o["kind"] in ("function", "method") and o["inline"] != o["kwonly"]:
                continue
            if o["kind"] == "method" and not o["inline"]:
                continue
            if key not in seen:
                seen.add(key)
                keep.append(o)
        return core.Concat(rt.OptSpace(al.S_A(), keep), rt.OptSpace(al.S_B((2,)), full), rt.OptSpace(al.S_D(), full), rt.OptSpace(al.S_W(), full),
                           _Cross(al.IRSpace(al.A_CHAIN, (0, 1), al.RETURNS_RED, al.KWARGS, (0,))))

    def run_case(self, case):
        if "via" in case:
            return self.run_cross(case)
        atoms, ret, ir = al.case_ir(case)
        opts = case["opts"]
        kind = opts["kind"]
        base = dict(("o." + k, v) for k, v in sorted(opts.items()))
        cf = dict(base, **rt.case_facts(case, atoms, ret))
        try:
            t1 = rt.emit_kind(kind, ir, opts)
            ir1 = rt.parse_kind(kind, t1)
        except Exception:
            return [], None, "first-pass-raise"
        texts = [t1]
        cur = ir1
        passes = 5 if self.tier == "thorough" else 3
        for n in range(2, passes + 1):
            try:
                t = rt.emit_kind(kind, cur, opts)
                texts.append(t)
                if n < passes:
                    cur = rt.parse_kind(kind, t)
            except Exception as e:
                return ([site(False, dict(cf, field="pass%d" % n), fail="raise_in_later_pass", **core.exc_obs(e))],
                        [kind, t1], "later-raise")
        sites = []
        for n in range(2, passes):
            a, b = texts[n - 1], texts[n]  # pass n vs pass n+1
            if a == b:
                sites.append(site(True, dict(cf, field="fix%d" % n)))
            else:
                dc = diff_class(a, b)
                sites.append(site(False, dict(cf, field="fix%d" % n), fail="drift", **dc))
                break
        nontrivial = [kind, jk(opts), t1] if (atoms or ret is not None or case["kwargs"]) else None
        return sites, nontrivial, [texts[0], len(set(texts))]


def _cross_run(self, case):
    """'A definition that doctrans itself produced is never changed again by converting it to itself':
    s = emit_K2(parse_K1(emit_K1(ir))); T = emit_K2 . parse_K2; require T(T(s)) == T(s)."""
    from mc.props.c05 import KIND_OPTS

    atoms, ret, ir = al.case_ir(case)
    k1, k2 = case["via"], case["kind"]
    base = {"o.kind": k2, "via": k1}
    cf = dict(base, **rt.case_facts(case, atoms, ret))
    try:
        s0 = rt.emit_kind(k2, rt.parse_kind(k1, rt.emit_kind(k1, ir, KIND_OPTS[k1])), KIND_OPTS[k2])
        s1 = rt.emit_kind(k2, rt.parse_kind(k2, s0), KIND_OPTS[k2])
    except Exception:
        return [], None, "first-pass-raise"
    try:
        s2 = rt.emit_kind(k2, rt.parse_kind(k2, s1), KIND_OPTS[k2])
    except Exception as e:
        return [site(False, dict(cf, field="cross.pass3"), fail="raise_in_later_pass", **core.exc_obs(e))], [k1, k2, s0], "later-raise"
    if s1 == s2:
        return [site(True, dict(cf, field="cross.fix"))], [k1, k2, s0], [s0, 1]
    return [site(False, dict(cf, field="cross.fix"), fail="drift", **diff_class(s1, s2))], [k1, k2, s0], [s0, 2]


C08.run_cross = _cross_run


def jk(o):
    return core.jkey(o)


class _Cross(core.Space):
    """IR x ordered pair of distinct kinds (K1 -> K2): the artefact of kind K2 that doctrans itself produced from K1."""

    def __init__(self, irs):
        self.irs = irs
        self.pairs = [(a, b) for a in rt.KINDS for b in rt.KINDS if a != b]

    def __len__(self):
        return len(self.irs) * len(self.pairs)

    def __getitem__(self, i):
        j, p = divmod(i, len(self.pairs))
        c = dict(self.irs[j])
        c["via"], c["kind"] = self.pairs[p]
        return c

    def describe(self):
        return {"irs": self.irs.describe(), "ordered_pairs": len(self.pairs), "size": len(self)}


CHECK = C08
