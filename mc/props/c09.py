"""
C09 - sync makes every target agree with the declared truth.

(E3) models/SyncProtocol.tla is model-checked by TLC; the dumped state graph is parsed and *every* Sync transition
     (de-duplicated by abstract pre-state and action) is replayed against the implementation: the pre-state is
     concretised with hand-written source templates (gamma), the real ground_truth runs, and the abstraction
     (alpha: independent ast-based extractor) of every file must equal the model's successor state; the report and
     the accepted / rejected outcome are compared as well.
(E1) the richer product: truth kind x target subset x per-target pre-state x top-level function / Class.method x
     interface version x API / command line; afterwards every named target must exist, parse and describe the truth's
     interface according to the independent extractor.
"""
import itertools
import os
import shutil
import tempfile

from mc import boot, core
from mc import project as pj
from mc import tlc_replay as tl
from mc.core import site

PRE = ("missing", "empty", "nodef", "stale", "agree", "reordered")
GAMMA = {"Missing": "missing", "Empty": "empty", "NoDef": "nodef", "D1": "v1", "D2": "v2"}


def subsets_with(truth):
    others = [k for k in pj.KINDS if k != truth]
    return [[truth, others[0]], [truth, others[1]], [truth] + others]


def build_product(tier):
    versions = ("v1", "v4", "v6", "v3") if tier == "quick" else tuple(pj.VERSIONS)
    cases = []
    for truth in pj.KINDS:
        for kinds in subsets_with(truth):
            targets = [k for k in kinds if k != truth]
            for pre in itertools.product(PRE, repeat=len(targets)):
                for method in (False, True):
                    for version in versions:
                        for via in ("api", "cli"):
                            if tier == "quick" and via == "cli" and version != "v1":
                                continue
                            cases.append({"part": "product", "truth": truth, "kinds": kinds, "pre": list(pre), "method": method,
                                          "version": version, "via": via})
    # a second file of the truth's own kind in the same invocation (the command line accepts several files per kind)
    for truth in pj.KINDS:
        other = [k for k in pj.KINDS if k != truth][0]
        for pre in PRE:
            for via in ("api", "cli"):
                cases.append({"part": "product", "truth": truth, "kinds": [k for k in pj.KINDS if k in (truth, other)], "pre": ["agree"],
                              "method": False, "version": "v1", "via": via, "extra_same_kind": pre})
    # one kind only, several files: the first is the truth, the others are targets of the same kind
    for truth in pj.KINDS:
        for pre in PRE:
            for via in ("api", "cli"):
                cases.append({"part": "product", "truth": truth, "kinds": [truth], "pre": [], "method": False, "version": "v1",
                              "via": via, "extra_same_kind": pre})
    # API: the truth file is not the first file listed for its kind
    for truth in pj.KINDS:
        other = [k for k in pj.KINDS if k != truth][0]
        for pre in PRE:
            cases.append({"part": "product", "truth": truth, "kinds": [k for k in pj.KINDS if k in (truth, other)], "pre": ["agree"],
                          "method": False, "version": "v1", "via": "api", "extra_same_kind": pre, "truth_last": True})
    # command line with paths spelled ~/file (left unexpanded by the shell in --class=~/x.py); a method name spelled with blanks
    for truth in pj.KINDS:
        for kinds in subsets_with(truth):
            targets = [k for k in kinds if k != truth]
            for st in ("missing", "nodef", "stale", "agree"):
                cases.append({"part": "product", "truth": truth, "kinds": kinds, "pre": [st] * len(targets), "method": False,
                              "version": "v1", "via": "cli", "tilde": True})
                if truth != "function" and "function" in kinds:  # (the blanks are in the *target's* name)
                    cases.append({"part": "product", "truth": truth, "kinds": kinds, "pre": [st] * len(targets), "method": True,
                                  "version": "v1", "via": "api", "name_blanks": True})
    # class targets in nested surroundings: the target is Outer.ConfigClass and a function follows Outer; the target is the
    # top-level ConfigClass and a class before it nests a namesake
    for truth in ("function", "argparse_function"):
        for ctx in ("nested_target_function_after", "top_target_nested_namesake_before"):
            for st in ("stale", "agree"):
                for via in ("api", "cli"):
                    cases.append({"part": "product", "truth": truth, "kinds": [k for k in pj.KINDS if k in (truth, "class")], "pre": [st],
                                  "method": False, "version": "v1", "via": via, "class_ctx": ctx})
    # a target of another kind lives in the truth's own file
    for truth in pj.KINDS:
        for k in pj.KINDS:
            if k == truth:
                continue
            for st in ("absent", "stale", "agree"):
                for via in ("api", "cli"):
                    cases.append({"part": "product", "truth": truth, "kinds": [x for x in pj.KINDS if x in (truth, k)], "pre": [st],
                                  "method": False, "version": "v1", "via": via, "in_truth_file": True})
    # textual surroundings of the target: unterminated / indentation-only last line, the definition's name as a string
    # before it, a column-aligned module docstring
    for truth in pj.KINDS:
        for kinds in subsets_with(truth):
            targets = [k for k in kinds if k != truth]
            for base in ("nodef", "stale", "agree"):
                for layout in pj.LAYOUTS:
                    for method in ((False, True) if tier == "thorough" else (False,)):
                        cases.append({"part": "product", "truth": truth, "kinds": kinds, "pre": ["%s@%s" % (base, layout)] * len(targets),
                                      "method": method, "version": "v1", "via": "api"})
    return cases


def build_paths(states, edges, tier):
    """Every path Sync ; a2 (quick: a2 a Sync) and Sync ; a2 ; Sync (thorough) of the TLC graph that starts in an initial
    state with an accepted Sync.  Only the first state is concretised by hand-written text: every later step runs on the
    files the implementation itself produced, and Edit actions rewrite one file by hand in between."""
    adj = {}
    for src, dst, name in edges:
        adj.setdefault(src, []).append((name, dst))
    inits = [i for i, s in states.items() if not s["rejected"] and not any(s["report"].values())]
    seen0 = set()
    out = []
    for i in sorted(inits, key=lambda i: sorted(states[i]["st"].items())):
        key0 = tuple(sorted(states[i]["st"].items()))
        if key0 in seen0:
            continue
        seen0.add(key0)
        for n1, d1 in sorted(adj.get(i, [])):
            a1 = tl.parse_action(n1)
            if a1["kind"] != "Sync" or states[d1]["rejected"]:
                continue
            for n2, d2 in sorted(adj.get(d1, [])):
                a2 = tl.parse_action(n2)
                steps2 = [(a1, states[d1]), (a2, states[d2])]
                if a2["kind"] == "Sync":
                    out.append({"part": "path", "pre": states[i]["st"], "steps": steps2})
                if tier != "thorough":
                    continue
                for n3, d3 in sorted(adj.get(d2, [])):
                    a3 = tl.parse_action(n3)
                    if a3["kind"] == "Sync":
                        out.append({"part": "path", "pre": states[i]["st"], "steps": steps2 + [(a3, states[d3])]})
    return out


def act_str(act):
    if act["kind"] == "Sync":
        return "Sync(%s,{%s})" % (act["truth"], "".join(act["targets"]))
    return "Edit(%s,%s)" % (act["file"], act["version"])


class _Space(core.Space):
    def __init__(self, cases):
        self.cases = cases

    def __len__(self):
        return len(self.cases)

    def __getitem__(self, i):
        return self.cases[i]

    def describe(self):
        return {"cases": len(self.cases)}


class C09(core.Check):
    id = "C09"
    level = "model_checking"
    rule = ("TLC enumerates the complete state graph of the sync specification (3 files x 5 abstract contents, 9 Sync and 6 Edit "
            "actions); every Sync transition with a distinct (abstract pre-state, action) is replayed on real files through "
            "ground_truth and the abstraction of the result must equal the model successor; in addition the product truth kind x "
            "target subset x pre-states x function/method x interface version x API/CLI is enumerated and every target is read "
            "back with an independent extractor")
    assumptions = ("gamma: hand-written canonical source per kind and version; alpha: ast-based extractor that never calls "
                   "doctrans", "normalisations accepted by alpha: a parameter without default may hold None or the zero value "
                   "of its type in a class / argparse target")

    def space(self):
        if not hasattr(self, "_cases"):
            states, edges, summary, _ = tl.run_tlc()
            self._tlc = {"states": len(states), "edges": len(edges), "summary": summary}
            seen = set()
            cases = []
            for src, dst, name in edges:
                act = tl.parse_action(name)
                if act["kind"] != "Sync":
                    continue
                pre = states[src]["st"]
                key = (tuple(sorted(pre.items())), name)
                if key in seen:
                    continue
                seen.add(key)
                cases.append({"part": "model", "pre": pre, "action": act, "post": states[dst]["st"],
                              "report": states[dst]["report"], "rejected": states[dst]["rejected"]})
            self._model_cases = len(cases)
            paths = build_paths(states, edges, self.tier)
            self._path_cases = len(paths)
            self._cases = cases + paths + build_product(self.tier)
        return _Space(self._cases)

    def _root(self):
        if not hasattr(self, "_dir"):
            self._dir = tempfile.mkdtemp(prefix="c09_%d_" % os.getpid())
            import atexit

            atexit.register(shutil.rmtree, self._dir, True)
        shutil.rmtree(self._dir, ignore_errors=True)
        return self._dir

    def run_case(self, case):
        if case["part"] == "model":
            return self.run_model(case)
        if case["part"] == "path":
            return self.run_path(case)
        return self.run_product(case)

    # ------------------------------------------------------------------ E3 replay
    def run_model(self, case):
        P = pj.Project(self._root())
        act = case["action"]
        truth = tl.KIND_OF[act["truth"]]
        kinds = [tl.KIND_OF[k] for k in act["targets"]]
        for f, val in case["pre"].items():
            k = tl.KIND_OF[f]
            st = GAMMA[val]
            P.write(k, None if st == "missing" else pj.prestate_text(k, st, "v1"))
        before = {k: P.read(k) for k in pj.KINDS}
        exc, rep, out = P.sync(truth, kinds, "api")
        pre_s = ",".join("%s=%s" % (f, case["pre"][f]) for f in "CFA")
        act_s = "Sync(%s,{%s})" % (act["truth"], "".join(act["targets"]))
        base = {"part": "model", "action": act_s, "pre": pre_s}
        sites = []
        rejected = exc is not None
        sites.append(site(rejected == case["rejected"], dict(base, field="accepted_or_rejected", want_rejected=case["rejected"]),
                          fail="outcome", got_rejected=rejected, **(core.exc_obs(exc) if exc is not None else {})))
        for f in "CFA":
            k = tl.KIND_OF[f]
            got = pj.classify(k, P.read(k), P.name_path(k))
            got = {"v1": "D1", "v2": "D2"}.get(got, got)
            role = "truth" if f == act["truth"] else ("target" if f in act["targets"] else "bystander")
            sites.append(site(got == case["post"][f], dict(base, field="state", file=f, role=role, want=case["post"][f]),
                              fail="abstract_state", got=got))
            # report (only meaningful for an accepted call)
            if not case["rejected"] and exc is None and rep is not None:
                rp = {os.path.basename(a): b for a, b in rep.items()}
                fn = pj.FILES[k]
                changed = P.read(k) != before[k]
                if role != "bystander":
                    sites.append(site(bool(rp.get(fn, False)) == changed, dict(base, field="report_vs_bytes", file=f, role=role),
                                      fail="report_untruthful", reported=rp.get(fn), bytes_changed=changed))
        return sites, [pre_s, act_s], [pre_s, act_s, [s["ok"] for s in sites]], {"model_transitions_replayed": 1}

    # ------------------------------------------------------------------ E3 replay of paths (states carried by the real files)
    def run_path(self, case):
        P = pj.Project(self._root())
        for f, val in case["pre"].items():
            k = tl.KIND_OF[f]
            st = GAMMA[val]
            P.write(k, None if st == "missing" else pj.prestate_text(k, st, "v1"))
        pre_s = ",".join("%s=%s" % (f, case["pre"][f]) for f in "CFA")
        path_s = ";".join(act_str(a) for a, _ in case["steps"])
        sites = []
        replayed = 0
        for n, (act, post) in enumerate(case["steps"]):
            base = {"part": "path", "pre": pre_s, "path": path_s, "step": n}
            if act["kind"] == "Edit":
                k = tl.KIND_OF[act["file"]]
                P.write(k, pj.prestate_text(k, GAMMA[act["version"]], "v1"))
                continue
            truth = tl.KIND_OF[act["truth"]]
            before = {k: P.read(k) for k in pj.KINDS}
            exc, rep, out = P.sync(truth, [tl.KIND_OF[k] for k in act["targets"]], "api")
            replayed += 1
            rejected = exc is not None
            sites.append(site(rejected == post["rejected"], dict(base, field="accepted_or_rejected", want_rejected=post["rejected"]),
                              fail="outcome", got_rejected=rejected, **(core.exc_obs(exc) if exc is not None else {})))
            diverged = rejected != post["rejected"]
            for f in "CFA":
                k = tl.KIND_OF[f]
                got = pj.classify(k, P.read(k), P.name_path(k))
                got = {"v1": "D1", "v2": "D2"}.get(got, got)
                role = "truth" if f == act["truth"] else ("target" if f in act["targets"] else "bystander")
                ok = got == post["st"][f]
                diverged = diverged or not ok
                sites.append(site(ok, dict(base, field="state", file=f, role=role, want=post["st"][f]), fail="abstract_state", got=got))
                if n > 0 and role == "bystander":
                    sites.append(site(P.read(k) == before[k], dict(base, field="bystander_bytes", file=f), fail="bystander_changed"))
            if diverged:  # the files no longer stand for the model state: the rest of the path is not a behaviour of the model
                break
        return sites, [pre_s, path_s], [pre_s, path_s, [s["ok"] for s in sites]], {"model_path_steps_replayed": replayed, "model_paths_replayed": 1}

    # ------------------------------------------------------------------ E1 product
    def run_product(self, case):
        method_of = "Trainer" if case["method"] else None
        P = pj.Project(self._root(), method_of=method_of)
        P.truth_last, P.tilde, P.name_blanks = bool(case.get("truth_last")), bool(case.get("tilde")), bool(case.get("name_blanks"))
        truth, kinds, version = case["truth"], case["kinds"], case["version"]
        targets = [k for k in kinds if k != truth]
        truth_text = pj.render(truth, version, P.function_name if truth == "function" else None, method_of if truth == "function" else None)
        P.write(truth, truth_text)
        if case.get("in_truth_file"):
            k, st = targets[0], case["pre"][0]
            P.files[k] = P.files[truth]
            if st != "absent":
                P.write(truth, truth_text + "\n\n" + pj.render(k, "v2" if st == "stale" else version))
        if case.get("class_ctx"):
            st = case["pre"][0]
            inner = pj.render("class", "v2" if st == "stale" else version)
            nest = lambda txt: "".join("    " + ln + "\n" if ln.strip() else "\n" for ln in txt.splitlines())
            if case["class_ctx"] == "nested_target_function_after":
                P.names = {"class": "Outer.ConfigClass"}
                P.write("class", "class Outer(object):\n    level: int = 1\n\n" + nest(inner) + "\n\ndef load(a, z=3):\n    return a\n")
            else:
                keep = pj.render("class", "v3")
                P.write("class", "class Model(object):\n    level: int = 1\n\n" + nest(keep) + "\n\n" + inner)
        for k, st in zip(targets, case["pre"]):
            if case.get("in_truth_file") or case.get("class_ctx"):
                break
            name = P.function_name if k == "function" else None
            P.write(k, pj.prestate_text(k, st, version, name, method_of if k == "function" else None))
        extra_pre = case.get("extra_same_kind")
        if extra_pre:
            P.extra = {truth: ["extra_" + pj.FILES[truth]]}
            txt = pj.prestate_text(truth, extra_pre, version, P.function_name if truth == "function" else None, None)
            if txt is not None:
                with open(P.extra_paths(truth)[0], "w") as f:
                    f.write(txt)
        truth_before = P.read(truth)
        exc, rep, out = P.sync(truth, kinds, case["via"])
        base = {"part": "product", "truth": pj.SHORT[truth], "kinds": "".join(pj.SHORT[k] for k in kinds), "method": case["method"],
                "version": version, "via": case["via"]}
        if case.get("in_truth_file"):
            base["in_truth_file"] = True
        if case.get("class_ctx"):
            base["class_ctx"] = case["class_ctx"]
        for flag in ("truth_last", "tilde", "name_blanks"):
            if case.get(flag):
                base[flag] = True
        sites = []
        if exc is not None:
            sites.append(site(False, dict(base, field="call", pre=",".join(case["pre"])), fail="raise", **core.exc_obs(exc)))
        else:
            sites.append(site(True, dict(base, field="call", pre=",".join(case["pre"]))))
        if case.get("class_ctx") == "top_target_nested_namesake_before":
            # the namesake nested in Model must still be the third interface
            got = pj.extract("class", P.read("class"), ["Model", "ConfigClass"])
            ok, bad = pj.agrees(got, "v3", "class") if not isinstance(got, str) else (False, [got])
            sites.append(site(ok, dict(base, field="nested_namesake_untouched", pre=case["pre"][0]), fail="bystander_changed", mismatch=";".join(bad)[:120]))
        for k, st in zip(targets, case["pre"]):
            got = pj.extract(k, P.read(k), P.name_path(k))
            ok, bad = pj.agrees(got, version, k)
            sites.append(site(ok, dict(base, field="target_agrees", target=pj.SHORT[k], pre=st), fail="target_disagrees",
                              mismatch=";".join(bad)[:120]))
        if extra_pre:
            p = P.extra_paths(truth)[0]
            src = open(p).read() if os.path.exists(p) else None
            got = pj.extract(truth, src, P.name_path(truth))
            ok, bad = pj.agrees(got, version, truth)
            sites.append(site(ok, dict(base, field="target_agrees", target=pj.SHORT[truth] + "2", pre=extra_pre), fail="target_disagrees",
                              mismatch=";".join(bad)[:120]))
        return sites, core.jkey(case), [core.jkey(case), [s["ok"] for s in sites]]

    def execute(self, pool):
        sp = self.space()
        agg = core.explore_space(self, sp, pool)
        extra = {"space": sp.describe(), "exhaustive": True,
                 "states": self._tlc["states"], "transitions": self._tlc["edges"],
                 "traces_validated_against_impl": agg.extra.get("model_transitions_replayed", 0),
                 "tlc_summary": self._tlc["summary"],
                 "model": "models/SyncProtocol.tla (TLC: invariants TypeOK, ReportTruthful; property AllSyncProps hold)",
                 "sync_transitions_distinct_by_prestate_and_action": self._model_cases,
                 "model_paths_replayed_on_real_files": agg.extra.get("model_paths_replayed", 0),
                 "model_path_sync_steps_replayed": agg.extra.get("model_path_steps_replayed", 0),
                 "product_cases": len(sp) - self._model_cases - self._path_cases}
        return agg, extra


CHECK = C09
