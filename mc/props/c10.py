"""
C10 - sync is idempotent, never edits the truth, and reports changes truthfully.

E2: explicit-state exploration of the *byte-level* project graph on the real implementation.
State   = the bytes of the three project files (or MISSING)
Events  = sync(truth kind, target set) for all 9 combinations, edit_truth(kind, version) for 6
Start   = every combination of {missing, empty, no definition, version 1, version 2, helper function + version 1} per file (216 plain + 14 shared-file + 20 method-target states)
Search  = breadth-first from each start state to closure (bounded by a depth cap that is reported when hit)
Oracles = on every accepted sync transition: running the identical sync again is a self-loop on bytes; the truth file's
          bytes are unchanged; the returned report and the printed modified/unchanged lines are true exactly for the
          files whose bytes changed; a rejected sync changes nothing.
"""
import itertools
import os
import shutil
import tempfile
from collections import deque

from mc import core
from mc import project as pj
from mc.core import site

VALS = ("missing", "empty", "nodef", "v1", "v2", "helper+v1")
SYNCS = [(t, tuple(k for k in pj.KINDS if k in S)) for t in pj.KINDS
         for S in ([t, o] for o in pj.KINDS if o != t)] + [(t, tuple(pj.KINDS)) for t in pj.KINDS]
EDITS = [(k, v) for k in pj.KINDS for v in ("v1", "v2")]


METHOD_TEXT = {
    "missing": None,
    "class_without_method": "class Trainer(object):\n    marker: int = 0\n",
    "method_v1": None,  # filled below
    "method_v1+tail": None,
    "method_v2+tail": None,
}
TAIL = "\n\ndef tail_helper(a, z=3):\n    return a\n"


def start_states():
    plain = [dict(zip(pj.KINDS, combo), config="plain") for combo in itertools.product(VALS, repeat=3)]
    # function and argparse function live in one file
    shared = [{"config": "shared", "class": c, "both": b} for c in ("v1", "missing")
              for b in ("missing", "nodef", "F", "A", "F+A", "A+F", "helper+F")]
    # the function target is a method (Class.method); another function may follow the class
    method = [{"config": "method", "class": c, "argparse_function": a, "function": f} for c in ("v1", "missing") for a in ("v1", "missing")
              for f in ("missing", "class_without_method", "method_v1", "method_v1+tail", "method_v2+tail")]
    # textual surroundings of one file (the others hold v1 / are missing)
    layout = [dict({k: ("%s@%s" % (b, lay) if k == kk else o) for k in pj.KINDS}, config="plain")
              for kk in pj.KINDS for b in ("nodef", "v2") for lay in pj.LAYOUTS for o in ("v1", "missing")]
    # the truth lives in its own file; a second file of the truth's kind is also named for another kind
    shared2 = [{"config": "shared2", "truth_kind": t, "class": c, "extra": e}
               for t in ("function", "argparse_function") for c in ("v1", "missing") for e in ("nodef", "K", "T", "K+T", "T+K")]
    # paths spelled ~/file; a method name spelled with blanks around the dot
    tilde = [dict(zip(pj.KINDS, combo), config="plain", tilde=True) for combo in itertools.product(("missing", "nodef", "v1", "v2"), repeat=3)
             if combo.count("missing") <= 1]
    blanks = [dict(m, name_blanks=True) for m in method if m["class"] == "v1"]
    return plain + shared + method + layout + shared2 + tilde + blanks


def setup_project(root, start):
    """Build the project of a start state; returns the Project."""
    cfg = start.get("config", "plain")
    if cfg == "plain":
        P = pj.Project(root)
        P.tilde = bool(start.get("tilde"))
        for k in pj.KINDS:
            st = start[k]
            P.write(k, None if st == "missing" else pj.prestate_text(k, st, "v1"))
        return P
    if cfg == "shared":
        P = pj.Project(root)
        P.files["function"] = P.files["argparse_function"] = "both.py"
        P.write("class", None if start["class"] == "missing" else pj.render("class", start["class"]))
        F, A = pj.render("function", "v1"), pj.render("argparse_function", "v1")
        text = {"missing": None, "nodef": pj.NODEF_TEXT, "F": F, "A": A, "F+A": F + "\n\n" + A, "A+F": A + "\n\n" + F,
                "helper+F": pj.HELPER_TEXT + "\n\n" + F}[start["both"]]
        P.write("function", text)
        return P
    if cfg == "shared2":
        t = start["truth_kind"]
        k = "argparse_function" if t == "function" else "function"
        P = pj.Project(root)
        P.extra = {t: ["shared2.py"]}
        P.files[k] = "shared2.py"
        P.write("class", None if start["class"] == "missing" else pj.render("class", start["class"]))
        P.write(t, pj.render(t, "v1"))
        T, K = pj.render(t, "v1"), pj.render(k, "v1")
        text = {"nodef": pj.NODEF_TEXT, "K": K, "T": T, "K+T": K + "\n\n" + T, "T+K": T + "\n\n" + K}[start["extra"]]
        P.write(k, text)
        return P
    P = pj.Project(root, method_of="Trainer")
    P.name_blanks = bool(start.get("name_blanks"))
    P.write("class", None if start["class"] == "missing" else pj.render("class", start["class"]))
    P.write("argparse_function", None if start["argparse_function"] == "missing" else pj.render("argparse_function", start["argparse_function"]))
    f = start["function"]
    if f == "missing":
        text = None
    elif f == "class_without_method":
        text = METHOD_TEXT[f]
    else:
        ver = "v2" if "v2" in f else "v1"
        text = pj.render("function", ver, "train", "Trainer") + (TAIL if f.endswith("+tail") else "")
    P.write("function", text)
    return P


class _Space(core.Space):
    def __init__(self):
        self.items = start_states()

    def __len__(self):
        return len(self.items)

    def __getitem__(self, i):
        return {"start": self.items[i]}

    def describe(self):
        return {"start_states": len(self.items), "sync_events": len(SYNCS), "edit_events": len(EDITS)}


def abstract(P):
    return ",".join("%s=%s" % (pj.SHORT[k], pj.classify(k, P.read(k), P.name_path(k))) for k in pj.KINDS)


def short_of(P, fn):
    ks = [pj.SHORT[k] for k in pj.KINDS if P.files[k] == fn]
    return "+".join(ks) or fn


def printed_report(out):
    rep = {}
    for ln in out.splitlines():
        parts = ln.split("\t")
        if len(parts) == 2 and parts[0] in ("modified", "unchanged"):
            rep[os.path.basename(parts[1])] = parts[0] == "modified"
    return rep


class C10(core.Check):
    id = "C10"
    level = "model_checking"
    rule = ("explicit-state BFS over the byte-level project graph: from each of the 216 concrete start states every sync / "
            "edit event is applied with the real ground_truth; states are file-byte snapshots (exact, no abstraction); on "
            "every sync transition the same sync is executed a second time and must be a self-loop, the truth file must be "
            "byte-identical, and the returned and printed reports must match the byte changes")
    assumptions = ("closure is sought up to the depth cap (quick 2, thorough 4); the number of frontier states left at the cap "
                   "is reported", "edit events write the hand-written canonical text of the version")

    def depth_cap(self):
        return 4 if self.tier == "thorough" else 2

    def space(self):
        return _Space()

    def run_case(self, case):
        if not hasattr(self, "_dir"):
            self._dir = tempfile.mkdtemp(prefix="c10_%d_" % os.getpid())
            import atexit

            atexit.register(shutil.rmtree, self._dir, True)
        shutil.rmtree(self._dir, ignore_errors=True)
        P = setup_project(self._dir, case["start"])
        s0 = P.snapshot()

        def key(snap):
            return tuple(sorted(snap.items()))

        seen = {key(s0): 0}
        frontier = deque([(s0, 0, ())])
        sites = []
        transitions = 0
        left_at_cap = 0
        start_s = ",".join("%s=%s" % (k if k in ("config", "both", "extra", "truth_kind", "tilde", "name_blanks") else pj.SHORT[k], v) for k, v in sorted(case["start"].items()))
        cfg = case["start"].get("config", "plain")
        while frontier:
            snap, depth, path = frontier.popleft()
            if depth >= self.depth_cap():
                left_at_cap += 1
                continue
            for ev in [("sync",) + s for s in SYNCS] + [("edit",) + e for e in EDITS]:
                P.restore(snap)
                if ev[0] == "edit":
                    if cfg != "plain":
                        continue  # truth edits are explored in the plain configuration only
                    P.write(ev[1], pj.render(ev[1], ev[2]))
                    post = P.snapshot()
                else:
                    truth, kinds = ev[1], ev[2]
                    ev_s = "sync(%s,{%s})" % (pj.SHORT[truth], "".join(pj.SHORT[k] for k in kinds))
                    pre_abs = abstract(P)
                    facts = {"event": ev_s, "pre": pre_abs, "history": len(path), "config": cfg}
                    if case["start"].get("tilde") or case["start"].get("name_blanks"):
                        facts["spelling"] = "tilde" if case["start"].get("tilde") else "blanks"
                    exc, rep, out = P.sync(truth, kinds, "api")
                    post = P.snapshot()
                    transitions += 1
                    changed = {fn: snap.get(fn) != post.get(fn) for fn in set(snap) | set(post)}
                    tf = P.files[truth]
                    if exc is not None:
                        sites.append(site(post == snap, dict(facts, field="rejected_sync_changes_nothing"), fail="files_changed_by_failed_sync",
                                          files=sorted(f for f, c in changed.items() if c), exc=type(exc).__name__))
                    else:
                        sites.append(site(not changed.get(tf, False), dict(facts, field="truth_untouched"), fail="truth_file_modified"))
                        rp = {os.path.basename(a): bool(b) for a, b in (rep or {}).items()}
                        for k in kinds:
                            fn = P.files[k]
                            if cfg == "shared" and k in ("function", "argparse_function"):
                                # one report entry per file: it must be true iff the file changed (either kind may have changed it)
                                if k == "argparse_function":
                                    continue
                            role = "truth" if k == truth else "target"
                            sites.append(site(rp.get(fn) == changed.get(fn, False), dict(facts, field="returned_report", file=pj.SHORT[k], role=role),
                                              fail="report_untruthful", reported=rp.get(fn), bytes_changed=changed.get(fn, False)))
                        pr = printed_report(out)
                        for fn, said in pr.items():
                            k = [kk for kk in pj.KINDS if P.files[kk] == fn]
                            sites.append(site(said == changed.get(fn, False), dict(facts, field="printed_report", file=pj.SHORT[k[0]] if k else fn),
                                              fail="printed_report_untruthful", printed="modified" if said else "unchanged",
                                              bytes_changed=changed.get(fn, False)))
                        # idempotence: the identical sync again must be a self-loop
                        exc2, rep2, out2 = P.sync(truth, kinds, "api")
                        post2 = P.snapshot()
                        transitions += 1
                        diff = sorted(short_of(P, fn) for fn in set(post) | set(post2) if post.get(fn) != post2.get(fn))
                        sites.append(site(post2 == post and exc2 is None, dict(facts, field="second_sync_is_noop"), fail="second_sync_changes_files",
                                          files=diff, exc=type(exc2).__name__ if exc2 else None))
                        if exc2 is None:
                            rp2 = {os.path.basename(a): bool(b) for a, b in (rep2 or {}).items()}
                            lying = sorted(short_of(P, fn) for fn, b in rp2.items() if b != (post.get(fn) != post2.get(fn)))
                            sites.append(site(not lying, dict(facts, field="second_sync_report"), fail="report_untruthful_on_second_run", files=lying))
                k2 = key(post)
                if k2 not in seen:
                    seen[k2] = depth + 1
                    frontier.append((post, depth + 1, path + (ev,)))
        counters = {"states": set(start_s + "|" + repr(k) for k in seen), "transitions": transitions,
                    "traces_validated_against_impl": transitions, "frontier_states_left_at_depth_cap": left_at_cap}
        return sites, [start_s], [start_s, len(seen), transitions], counters


def pj_short(fn):
    for k, f in pj.FILES.items():
        if f == fn:
            return pj.SHORT[k]
    return fn


CHECK = C10
