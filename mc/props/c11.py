"""
C11 - sync preserves everything it was not asked to change.

Programs (E1): target module = prefix (0..2 items) + named definition (absent / stale / agreeing) + suffix (0..2 items),
items drawn from imports, constants, a helper function sharing a parameter name, a class with a same-named method,
a class nesting a same-named class, an unrelated class; with / without trailing newline; for each of the three target
kinds; plus method targets whose class has sibling members before / after.
Oracle: every other top-level statement (sibling member) has an identical ast.dump, in the same order; at most one
definition of the requested name exists afterwards; the file parses; extra body statements of a synchronised
function survive.
"""
import ast
import itertools
import os
import shutil
import tempfile

from mc import core
from mc import project as pj
from mc.core import site

ITEMS = [
    ("import", "import os\n"),
    ("const", "X = 1\n"),
    ("helper", "def helper(a, z=3):\n    return a\n"),
    ("same_method", "class Other(object):\n    def train(self, a):\n        return a\n\n    def set_cli_args(self, argument_parser):\n        return argument_parser\n"),
    ("nested_same", "class Outer(object):\n    class ConfigClass(object):\n        q: int = 1\n\n    def train(self, a=1):\n        return a\n"),
    ("unrelated", "class Unrelated(object):\n    y: int = 2\n"),
    ("dunder_all", "__all__ = ['ConfigClass', 'train', 'set_cli_args']\n"),
    ("forward_ref", "class Registry(object):\n    default: Optional['ConfigClass'] = None\n    hook: 'train' = None\n"),
    # syntax variety that a whole-module re-emission must carry unchanged
    ("posonly_varargs", "def clamp(value, low, high, /, *rest, strict=False, **extra):\n    return value\n"),
    ("decorated_async", "import functools\n\n\n@functools.lru_cache(maxsize=None)\ndef cached(n: int = 3) -> int:\n    return n\n\n\nasync def fetch(url, *, timeout=1.0):\n    return url\n"),
    # a sibling constant whose triple-quoted value has lines holding only blanks / a tab
    ("multiline_string", 'TEMPLATE = """first line\n    \nthird line\n\t\nend"""\n'),
    # the names are bound again further down (decorator-style re-assignment)
    ("rebind", "ConfigClass = register(ConfigClass)\ntrain = traced(train)\nset_cli_args = traced(set_cli_args)\n"),
    # a function whose parameters are named like the targets
    ("params_named_like_targets", "def register(name, ConfigClass, train=None, set_cli_args=None):\n    return name\n"),
    ("control_flow", "if (FLAG := True):\n    LIMIT = 1\nelse:\n    LIMIT = 2\ntry:\n    import json\nexcept ImportError:\n    json = None\n"),
]
MEMBERS = [
    ("attr", "    other_attr: str = 'o'\n"),
    ("method_same_param", "    def evaluate(self, a, b=2):\n        return a\n"),
    ("nested", "    class Inner(object):\n        a: int = 1\n"),
]
BODY_EXTRA = "total = 0\nprint(total)"
MODULE_DOCS = {
    "plain": '"""Module documentation.\n\nSecond paragraph of the module docstring.\n"""\n',
    "table": '"""Settings module.\n\nDATA_DIR      where the data lives\nusage:    prog [options]\n"""\n',
    # the layout a re-emitted module docstring ends up in (text in column 0 between two newlines): must survive exactly
    "canonical": '"""\nSettings module.\n\nDATA_DIR      where the data lives\nusage:    prog [options]\n"""\n',
}


def seqs(n_items, maxlen):
    out = [()]
    for L in range(1, maxlen + 1):
        out += list(itertools.permutations(range(n_items), L))
    return out


def build_cases(tier):
    maxlen = 2 if tier == "thorough" else 1
    cases = []
    pre_suf = [(p, s) for p in seqs(len(ITEMS), maxlen) for s in seqs(len(ITEMS), maxlen) if not set(p) & set(s)]
    if tier == "quick":
        pre_suf += [((a, b), ()) for a, b in itertools.permutations(range(len(ITEMS)), 2)][:12] + [((), (a, b)) for a, b in itertools.permutations(range(len(ITEMS)), 2)][:12]
    for target in pj.KINDS:
        for p, s in pre_suf:
            for state in ("absent", "stale", "agree"):
                for nl in (True, False, "ws"):  # "ws": the last line holds only indentation (no newline)
                    cases.append({"mode": "module", "target": target, "prefix": list(p), "suffix": list(s), "state": state, "newline": nl})
    # a module docstring (plain / with an aligned table, i.e. runs of spaces) in front of everything
    for target in pj.KINDS:
        for doc in ("plain", "table", "canonical"):
            for p, s in [((), ()), ((1,), ()), ((), (2,)), ((0,), (5,))]:
                for state in ("absent", "stale", "agree"):
                    cases.append({"mode": "module", "target": target, "prefix": list(p), "suffix": list(s), "state": state,
                                  "newline": True, "moddoc": doc})
    # one file that is the target of two kinds in the same run (class + argparse function)
    for p, s in [((), ()), ((1,), ()), ((), (2,)), ((0,), (5,)), ((2,), (1,))]:
        for cstate in ("absent", "stale", "agree"):
            for astate in ("absent", "stale", "agree"):
                for order in ("class_first", "argparse_first"):
                    cases.append({"mode": "shared", "target": "class", "prefix": list(p), "suffix": list(s), "state": cstate,
                                  "astate": astate, "order": order, "newline": True})
    # the class target is nested (Outer.ConfigClass); a top-level namesake (class / assignment) stands before or after Outer
    for namesake in ("none", "class_before", "assign_before", "class_after", "function_after", "function_and_class_after"):
        for state in ("absent", "stale", "agree"):
            for sib in (False, True):
                cases.append({"mode": "nested", "target": "class", "prefix": [], "suffix": [], "state": state, "newline": True,
                              "namesake": namesake, "siblings": sib})
    # the file named for two kinds does not exist yet
    for order in ("class_first", "argparse_first"):
        cases.append({"mode": "shared", "target": "class", "prefix": [], "suffix": [], "state": "absent", "astate": "absent",
                      "order": order, "newline": True, "file_missing": True})
    mem = [(p, s) for p in seqs(len(MEMBERS), 2) for s in seqs(len(MEMBERS), 2) if not set(p) & set(s)]
    for p, s in mem:
        for state in ("absent", "stale", "agree"):
            for nl in (True, False):
                cases.append({"mode": "method", "target": "function", "prefix": list(p), "suffix": list(s), "state": state, "newline": nl})
    return cases


class _Space(core.Space):
    def __init__(self, cases):
        self.cases = cases

    def __len__(self):
        return len(self.cases)

    def __getitem__(self, i):
        return self.cases[i]

    def describe(self):
        return {"target_modules": len(self.cases)}


def top_level_others(src, name):
    tree = ast.parse(src)
    others, named = [], []
    for n in tree.body:
        if isinstance(n, (ast.ClassDef, ast.FunctionDef)) and n.name == name:
            named.append(n)
        else:
            others.append(ast.dump(n))
    return others, named


def class_members_others(src, cls, name):
    tree = ast.parse(src)
    c = next((n for n in tree.body if isinstance(n, ast.ClassDef) and n.name == cls), None)
    outside = [ast.dump(n) for n in tree.body if n is not c]
    if c is None:
        return outside, None, []
    others, named = [], []
    for n in c.body:
        if isinstance(n, ast.FunctionDef) and n.name == name:
            named.append(n)
        else:
            others.append(ast.dump(n))
    return outside, others, named


class C11(core.Check):
    id = "C11"
    level = "exploration"
    rule = ("every generated target module (prefix x definition state x suffix x trailing newline x target kind, and method "
            "targets with sibling members) is synchronised from a hand-written truth of another kind with the real "
            "ground_truth; the statements other than the named definition are compared by ast.dump before and after; "
            "non-trivial = the module has at least one other statement; distinct = distinct module text x kind")
    assumptions = ("truth kind is class for function / argparse targets and function for class targets",)

    def space(self):
        if not hasattr(self, "_cases"):
            self._cases = build_cases(self.tier)
        return _Space(self._cases)

    def run_case(self, case):
        if not hasattr(self, "_dir"):
            self._dir = tempfile.mkdtemp(prefix="c11_%d_" % os.getpid())
            import atexit

            atexit.register(shutil.rmtree, self._dir, True)
        shutil.rmtree(self._dir, ignore_errors=True)
        if case["mode"] == "shared":
            return self.run_shared(case)
        if case["mode"] == "nested":
            return self.run_nested(case)
        target = case["target"]
        truth = "function" if target == "class" else "class"
        method = case["mode"] == "method"
        P = pj.Project(self._dir, method_of="Trainer" if method else None)
        P.write(truth, pj.render(truth, "v1"))
        name = P.function_name if target == "function" else pj.DEF_NAMES[target]
        if case["state"] == "absent":
            definition = ""
        else:
            ver = "v2" if case["state"] == "stale" else "v1"
            extra = BODY_EXTRA if (target != "class" and case["state"] == "stale") else ""
            definition = pj.render(target, ver, name, None, extra)
        if not method:
            parts = [ITEMS[i][1] for i in case["prefix"]] + ([definition] if definition else []) + [ITEMS[i][1] for i in case["suffix"]]
            src = "\n".join(parts)
        else:
            body = [MEMBERS[i][1] for i in case["prefix"]]
            if definition:
                body.append("".join("    " + ln + "\n" if ln.strip() else "\n" for ln in definition.splitlines()))
            body += [MEMBERS[i][1] for i in case["suffix"]]
            if not body:
                body = ["    marker: int = 0\n"]
            src = "import os\n\nclass Trainer(object):\n" + "\n".join(body) + "\nAFTER = 1\n"
        if case.get("moddoc"):
            doc = MODULE_DOCS[case["moddoc"]]
            src = doc + "\n" + src
        src = src.rstrip("\n") + {True: "\n", False: "", "ws": "\n    "}[case["newline"]]
        if not src.strip():
            src = ""
        P.write(target, src)
        labels = ITEMS if not method else MEMBERS
        base = {"mode": case["mode"], "target": pj.SHORT[target], "state": case["state"], "newline": case["newline"],
                "moddoc": case.get("moddoc", "-"),
                "prefix": ">".join(labels[i][0] for i in case["prefix"]) or "-", "suffix": ">".join(labels[i][0] for i in case["suffix"]) or "-"}
        if not method and any(labels[i][0] == "params_named_like_targets" for i in case["prefix"] + case["suffix"]):
            base["params_like_targets"] = "before" if any(labels[i][0] == "params_named_like_targets" for i in case["prefix"]) else "after"
        if not method and any(labels[i][0] == "rebind" for i in case["prefix"] + case["suffix"]):
            base["rebind"] = "before" if any(labels[i][0] == "rebind" for i in case["prefix"]) else "after"
        exc, rep, out = P.sync(truth, [k for k in pj.KINDS if k in (truth, target)], "api")
        after = P.read(target)
        sites = []
        if exc is not None:
            sites.append(site(False, dict(base, field="call"), fail="raise", **core.exc_obs(exc)))
            sites.append(site(after == src, dict(base, field="failed_call_leaves_file"), fail="file_changed_by_failed_sync"))
            return sites, (src, target), [src, "raise"]
        sites.append(site(True, dict(base, field="call")))
        try:
            ast.parse(after)
            sites.append(site(True, dict(base, field="parses")))
        except SyntaxError as e:
            sites.append(site(False, dict(base, field="parses"), fail="syntax_error", msg=core.short(str(e), 60)))
            return sites, (src, target), [src, "syntax"]
        if not method:
            o_before, n_before = top_level_others(src, name) if src else ([], [])
            o_after, n_after = top_level_others(after, name)
            sites.append(site(o_before == o_after, dict(base, field="other_statements"), fail="other_statements_changed",
                              before=len(o_before), after=len(o_after)))
            sites.append(site(len(n_after) == 1, dict(base, field="one_definition"), fail="definition_count", count=len(n_after)))
            named = n_after
            if case.get("moddoc"):
                # whatever happens to the layout of the module docstring, its words must survive, in order
                wb = (ast.get_docstring(ast.parse(src), clean=False) or "").split()
                wa = (ast.get_docstring(ast.parse(after), clean=False) or "").split()
                sites.append(site(wb == wa, dict(base, field="module_docstring_words"), fail="module_docstring_text_changed",
                                  got=core.short(" ".join(wa), 80)))
        else:
            out_b, mem_b, n_before = class_members_others(src, "Trainer", name)
            out_a, mem_a, n_after = class_members_others(after, "Trainer", name)
            sites.append(site(mem_a is not None and mem_b == mem_a, dict(base, field="sibling_members"), fail="sibling_members_changed"))
            # statements outside the class: nothing may change and nothing may be added there
            sites.append(site(out_b == out_a, dict(base, field="other_statements"), fail="other_statements_changed",
                              before=len(out_b), after=len(out_a)))
            sites.append(site(len(n_after) == 1, dict(base, field="one_definition"), fail="definition_count", count=len(n_after)))
            named = n_after
        if case["state"] == "stale" and target != "class" and named:
            body_src = [ast.unparse(n) for n in named[0].body]
            kept = all(stmt in body_src for stmt in BODY_EXTRA.splitlines())
            sites.append(site(kept, dict(base, field="body_statements_survive"), fail="body_statements_lost"))
        nontrivial = (src, target) if (case["prefix"] or case["suffix"]) else None
        return sites, nontrivial, [src, target, after]


def _run_shared(self, case):
    """class + argparse function live in one file; truth is a function in its own file."""
    P = pj.Project(self._dir)
    P.files["argparse_function"] = P.files["class"] = "both.py"
    P.write("function", pj.render("function", "v1"))

    def definition(kind, state):
        if state == "absent":
            return None
        return pj.render(kind, "v2" if state == "stale" else "v1")

    cdef, adef = definition("class", case["state"]), definition("argparse_function", case["astate"])
    defs = [d for d in ((cdef, adef) if case["order"] == "class_first" else (adef, cdef)) if d]
    parts = [ITEMS[i][1] for i in case["prefix"]] + defs + [ITEMS[i][1] for i in case["suffix"]]
    src = "\n".join(parts)
    if src.strip():
        src = src.rstrip("\n") + "\n"
    P.write("class", None if case.get("file_missing") else src)
    base = {"mode": "shared", "state": case["state"], "astate": case["astate"], "order": case["order"],
            "prefix": ">".join(ITEMS[i][0] for i in case["prefix"]) or "-", "suffix": ">".join(ITEMS[i][0] for i in case["suffix"]) or "-"}
    if case.get("file_missing"):
        base["file_missing"] = True
        src = ""
    exc, rep, out = P.sync("function", list(pj.KINDS), "api")
    after = P.read("class")
    sites = []
    if exc is not None:
        sites.append(site(False, dict(base, field="call"), fail="raise", **core.exc_obs(exc)))
        return sites, (src, "shared"), [src, "raise"]
    sites.append(site(True, dict(base, field="call")))
    try:
        tree = ast.parse(after)
    except SyntaxError as e:
        sites.append(site(False, dict(base, field="parses"), fail="syntax_error", msg=core.short(str(e), 60)))
        return sites, (src, "shared"), [src, "syntax"]
    names = ("ConfigClass", "set_cli_args")

    def others(text):
        return [ast.dump(n) for n in ast.parse(text).body if not (isinstance(n, (ast.ClassDef, ast.FunctionDef)) and n.name in names)]

    sites.append(site(others(src) == others(after), dict(base, field="other_statements"), fail="other_statements_changed"))
    for nm in names:
        cnt = sum(1 for n in tree.body if isinstance(n, (ast.ClassDef, ast.FunctionDef)) and n.name == nm)
        sites.append(site(cnt == 1, dict(base, field="one_definition", name=nm), fail="definition_count", count=cnt))
    return sites, (src, "shared"), [src, after]


C11.run_shared = _run_shared

NAMESAKE_CLASS = "class ConfigClass(object):\n    keep: int = 1\n"
NAMESAKE_ASSIGN = "ConfigClass = dict\n"


def _run_nested(self, case):
    """The class target is Outer.ConfigClass; nothing outside it - in particular a top-level namesake - may change."""
    P = pj.Project(self._dir)
    P.names = {"class": "Outer.ConfigClass"}
    P.write("function", pj.render("function", "v1"))
    inner = "" if case["state"] == "absent" else pj.render("class", "v2" if case["state"] == "stale" else "v1")
    body = []
    if case["siblings"]:
        body.append("    before: int = 0\n")
    if inner:
        body.append("".join("    " + ln + "\n" if ln.strip() else "\n" for ln in inner.splitlines()))
    if case["siblings"] or not inner:
        body.append("    def after(self, a=1):\n        return a\n")
    outer = "class Outer(object):\n" + "\n".join(body)
    ns = case["namesake"]
    parts = ["import os\n"]
    if ns == "class_before":
        parts.append(NAMESAKE_CLASS)
    if ns == "assign_before":
        parts.append(NAMESAKE_ASSIGN)
    parts.append(outer)
    if ns in ("function_after", "function_and_class_after"):
        parts.append("def load(a, z=3):\n    return a\n")
    if ns in ("class_after", "function_and_class_after"):
        parts.append(NAMESAKE_CLASS)
    src = "\n\n".join(p.rstrip("\n") for p in parts) + "\n"
    P.write("class", src)
    base = {"mode": "nested", "state": case["state"], "namesake": ns, "siblings": case["siblings"]}
    exc, rep, out = P.sync("function", ["class", "function"], "api")
    after = P.read("class")
    sites = []
    if exc is not None:
        sites.append(site(False, dict(base, field="call"), fail="raise", **core.exc_obs(exc)))
        sites.append(site(after == src, dict(base, field="failed_call_leaves_file"), fail="file_changed_by_failed_sync"))
        return sites, (src, "nested"), [src, "raise"]
    sites.append(site(True, dict(base, field="call")))
    try:
        tree = ast.parse(after)
    except SyntaxError as e:
        sites.append(site(False, dict(base, field="parses"), fail="syntax_error", msg=core.short(str(e), 60)))
        return sites, (src, "nested"), [src, "syntax"]

    def split(text):
        t = ast.parse(text)
        outer_node = next((n for n in t.body if isinstance(n, ast.ClassDef) and n.name == "Outer"), None)
        outside = [ast.dump(n) for n in t.body if n is not outer_node]
        members = None if outer_node is None else [ast.dump(n) for n in outer_node.body
                                                   if not (isinstance(n, ast.ClassDef) and n.name == "ConfigClass")]
        return outside, members

    (out_b, mem_b), (out_a, mem_a) = split(src), split(after)
    # an absent nested definition may be added at module level (there is no rule where it goes); everything else stays
    added_ok = out_a == out_b or (case["state"] == "absent" and len(out_a) == len(out_b) + 1 and all(x in out_a for x in out_b))
    sites.append(site(added_ok, dict(base, field="other_statements"), fail="other_statements_changed", before=len(out_b), after=len(out_a)))
    sites.append(site(mem_a == mem_b, dict(base, field="sibling_members"), fail="sibling_members_changed"))
    if case["state"] != "absent":
        got = pj.extract("class", after, ["Outer", "ConfigClass"])
        ok, bad = pj.agrees(got, "v1", "class")
        sites.append(site(ok, dict(base, field="nested_target_agrees"), fail="target_disagrees", mismatch=";".join(bad)[:100]))
    return sites, (src, "nested"), [src, after]


C11.run_nested = _run_nested

CHECK = C11
