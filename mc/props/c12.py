"""
C12 - output is a deterministic function of the input.

(a) configurations (E5): the conversion battery (mc/c12_battery.py) is run in one fresh interpreter per
    PYTHONHASHSEED.  Seeds are added until *every permutation* of the iteration order of the relevant name sets
    (k = 2, 3; thorough also 4) has been witnessed - the 2^32 seeds are thereby covered through the k! orders
    they can induce - plus PYTHONHASHSEED=random runs.  Every conversion must produce the same bytes everywhere.
(b) histories (E2, depth-bounded, no state merging): every sequence with repetition over an alphabet of
    conversions (incl. gen with a prepended import, which updates module globals, and a numpydoc parse, which
    keeps a flag on a closure) up to length 3 (thorough 4) is executed in a child forked from a pristine
    post-import process; each call's output must equal the output of the same call executed alone.
"""
import hashlib
import itertools
import json
import math
import os
import subprocess
import sys
from concurrent.futures import ThreadPoolExecutor

from mc import boot, core
from mc import c12_battery as bat
from mc.core import site

HIST_ALPHABET = [
    "parse.function/rest/k3/kw0",
    "parse.docstring/numpydoc_defaults",
    "emit.class",
    "gen/class+prepend_import",
    "parse.class+init/k3",
    "emit.argparse",
    "gen/function",
    "parse.docstring/google_trailing_section",
    "parse.docstring/two_announcements",
    "parse.docstring/numpydoc_raises_after_default",
    "parse.docstring/google_leading_no_default",
    "emit.argparse/return_with_prose",
    "emit.argparse/return_default_no_prose",
    "parse.class/empty_docstring",
    "parse.function/empty_docstring",
    "parse.docstring/numpydoc_returns_only",
    "parse.docstring/google_returns_only",
    "parse.function/numpydoc_returns_only->emit.class",
    "parse.function(live)/returns_without_rtype->emit.rest",
    "to_code/fails_inside_def",
]


def run_battery(seed, k_max):
    env = dict(os.environ, PYTHONHASHSEED=str(seed), VERIF_REPO=boot.REPO, PYTHONDONTWRITEBYTECODE="1")
    r = subprocess.run([sys.executable, "-B", os.path.join(core.HOME, "mc", "c12_battery.py"), str(k_max)],
                       env=env, stdout=subprocess.PIPE, stderr=subprocess.PIPE, text=True, cwd=core.HOME)
    if r.returncode != 0:
        raise RuntimeError("battery failed under seed %s: %s" % (seed, r.stderr[-500:]))
    lines = r.stdout.strip().splitlines()
    order = json.loads(lines[0].split("\t", 1)[1])
    res = {}
    for ln in lines[1:]:
        cid, dig, note = (ln.split("\t") + [""])[:3]
        res[cid] = dig + ("|" + note if note else "")
    return order, res


CORE = 7  # the first CORE conversions of HIST_ALPHABET get one more level of depth
N_BASE = len(HIST_ALPHABET)
# the twin family (c12_battery.TWIN_SRC): 24 conversions over two interfaces that share every name and type name
HIST_ALPHABET = HIST_ALPHABET + [cid for cid, _ in bat.twin_conversions()]


class _Seqs(core.Space):
    def __init__(self, n, maxlen):
        """all sequences up to ``maxlen - 1`` over the whole alphabet, plus length ``maxlen`` over the core conversions"""
        self.items = [list(t) for L in range(1, maxlen) for t in itertools.product(range(N_BASE), repeat=L)]
        self.items += [list(t) for t in itertools.product(range(CORE), repeat=maxlen)]
        # twin family: every ordered pair of its conversions (thorough: and every pair of a twin and a base conversion,
        # and all triples of the twin parse conversions)
        tw = list(range(N_BASE, n))
        self.items += [[a] for a in tw] + [[a, b] for a in tw for b in tw]
        if maxlen > 3:
            self.items += [[a, b] for a in tw for b in range(N_BASE)] + [[b, a] for a in tw for b in range(N_BASE)]
            tp = [i for i in tw if "/parse." in HIST_ALPHABET[i]]
            self.items += [[a, b, c] for a in tp for b in tp for c in tp]

    def __len__(self):
        return len(self.items)

    def __getitem__(self, i):
        return {"seq": self.items[i]}

    def describe(self):
        return {"alphabet": HIST_ALPHABET, "sequences": len(self.items)}


class C12(core.Check):
    id = "C12"
    level = "exploration"
    rule = ("(a) the conversion battery is executed in a fresh interpreter for every hash seed of a covering set (all k! "
            "iteration orders of the undocumented-name sets witnessed, k<=3 quick / k<=4 thorough) plus random seeds and "
            "all digests are compared with seed 0; (b) every sequence with repetition over 20 conversions up to length 2 (thorough 3), and of length 3 (thorough 4) over the 7 core conversions, runs in a child forked from a pristine process and each call is compared with its solo output; "
            "non-trivial = a (conversion, iteration-order) pair whose order differs from seed 0's, or a sequence of "
            "length >= 2; distinct = distinct (conversion, order) pairs and distinct sequences")
    assumptions = ("PYTHONHASHSEED influences doctrans only through set / dict-key-view iteration order of parameter names",
                   "process state cannot be canonicalised soundly, so call histories are depth-bounded, not closed")

    def k_max(self):
        return 4 if self.tier == "thorough" else 3

    def space(self):
        return _Seqs(len(HIST_ALPHABET), 4 if self.tier == "thorough" else 3)

    # ---------------------------------------------------------------- histories
    def _child(self, specs):
        """Run conversions in a forked child; return list of digests."""
        r, w = os.pipe()
        pid = os.fork()
        if pid == 0:
            try:
                os.close(r)
                outs = []
                for spec in specs:
                    out = bat.safe_run(spec)
                    outs.append(hashlib.sha256(out.encode()).hexdigest()[:16] + ("|" + out[:40] if out.startswith("RAISE") else ""))
                os.write(w, json.dumps(outs).encode())
            finally:
                os._exit(0)
        os.close(w)
        buf = b""
        while True:
            chunk = os.read(r, 65536)
            if not chunk:
                break
            buf += chunk
        os.close(r)
        os.waitpid(pid, 0)
        return json.loads(buf.decode()) if buf else None

    def run_case(self, case):
        convs = dict(bat.conversions(4))
        if not hasattr(self, "_solo"):
            self._solo = {}
        seq = case["seq"]
        for i in set(seq):
            if i not in self._solo:
                self._solo[i] = self._child([convs[HIST_ALPHABET[i]]])[0]
        outs = self._child([convs[HIST_ALPHABET[i]] for i in seq])
        sites = []
        if outs is None:
            return [site(False, {"part": "history", "seq": ">".join(HIST_ALPHABET[i] for i in seq)}, fail="child_died")], None, "died"
        for pos, i in enumerate(seq):
            facts = {"part": "history", "conv": HIST_ALPHABET[i], "after": ">".join(HIST_ALPHABET[j] for j in seq[:pos]) or "<fresh>"}
            sites.append(site(outs[pos] == self._solo[i], facts, fail="differs_from_solo", got=outs[pos], solo=self._solo[i]))
        return sites, (seq if len(seq) > 1 else None), [seq, outs]

    def replay(self, rec):
        """History cases re-run their sequence; seed sites re-run the battery under seeds 0..63 for that conversion."""
        if rec.get("facts", {}).get("part") != "seed":
            return [s for s in self.run_case(rec["case"])[0] if not s["ok"]]
        cid = rec["facts"]["conv"]
        ref = run_battery(0, self.k_max())[1]
        out = []
        for s in range(1, 64):
            order, res = run_battery(s, self.k_max())
            if res.get(cid) != ref.get(cid):
                out.append(site(False, rec["facts"], fail="differs_from_seed0", got=res.get(cid), ref=ref.get(cid)))
        return out

    # ---------------------------------------------------------------- seeds
    def execute(self, pool):
        agg = core.explore_space(self, self.space(), pool)
        k_max = self.k_max()
        need = {k: math.factorial(k) for k in range(2, k_max + 1)}
        seen = {k: {} for k in need}  # perm -> first seed
        results = {}
        orders = {}
        seed = 0
        cap = 2000
        with ThreadPoolExecutor(max_workers=core.NPROC) as tp:
            min_seeds = 64 if self.tier == "quick" else 256
            phrase_orders = set()
            while (any(len(seen[k]) < need[k] for k in need) or seed < min_seeds) and seed < cap:
                batch = list(range(seed, seed + 32))
                seed += 32
                for s, (order, res) in zip(batch, tp.map(lambda s: run_battery(s, k_max), batch)):
                    new = tuple(order.get("phrases", ())) not in phrase_orders
                    phrase_orders.add(tuple(order.get("phrases", ())))
                    for k in need:
                        perm = ",".join(order[str(k)])
                        if perm not in seen[k]:
                            seen[k][perm] = s
                            new = True
                    if new or s == 0:
                        results[s] = res
                        orders[s] = order
            rnd = list(tp.map(lambda i: run_battery("random", k_max), range(4 if self.tier == "quick" else 12)))
        ref = results[0]
        # harness self-determinism: the same seed twice gives the same digests
        again = run_battery(0, k_max)[1]
        if again != ref:
            agg.harness_errors.append({"index": -1, "case": "seed 0 twice", "tb": "battery output differs between two runs with the same seed"})
        runs = [("seed%d" % s, orders[s], results[s]) for s in sorted(results)] + [("random%d" % i, o, r) for i, (o, r) in enumerate(rnd)]
        for label, order, res in runs:
            sites = []
            for cid, dig in res.items():
                k = [kk for kk in need if ("/k%d" % kk) in cid]
                perm = ",".join(order[str(k[0])]) if k else "set4:" + "|".join(p.strip()[:9] for p in order.get("phrases", ()))
                ref_perm = ",".join(orders[0][str(k[0])]) if k else "set4:" + "|".join(p.strip()[:9] for p in orders[0].get("phrases", ()))
                facts = {"part": "seed", "conv": cid, "order": perm}
                sites.append(site(dig == ref.get(cid), facts, fail="differs_from_seed0", got=dig, ref=ref.get(cid)))
                nt = [cid, perm] if perm != ref_perm else None
                agg.add_case(-1, {"run": label, "order": order}, [sites[-1]], nt, [cid, dig], sample=False)
        agg.samples.append({"seed_run": {"seeds_with_new_orders": sorted(results), "orders_seed0": orders[0]}})
        extra = {
            "exhaustive": all(len(seen[k]) == need[k] for k in need),
            "permutations_covered": {str(k): "%d/%d" % (len(seen[k]), need[k]) for k in need},
            "witness_seeds": {str(k): {p: s for p, s in sorted(seen[k].items())} for k in need},
            "seeds_tried": seed, "orders_of_4_element_string_set_witnessed": "%d/24" % len(phrase_orders), "random_runs": len(rnd), "battery_conversions": len(ref),
            "history_sequences": len(self.space()), "history_alphabet": HIST_ALPHABET,
        }
        return agg, extra


CHECK = C12
