"""
C13 - conversions do not interfere through shared inputs.  E2: explicit-state exploration of the
*shared-object graph*.

State  = canonical serialisation of the one object (IR dict, or AST node) that every call shares
Event  = one real emit / parse call on that object
Search = BFS to closure from each initial object (the object is rebuilt by deep copy for every transition, so
         nothing aliases between executions).  Because each call's output is a function of the object's state,
         closure covers call sequences of *any* length, permutations and repetitions included.
Oracle = on every transition the call's output equals the output of the same call on a fresh copy of the
         *initial* object.
"""
import ast
import copy
import json
from collections import OrderedDict, deque

from mc import alphabets as al
from mc import core
from mc.core import site

STATE_CAP = 400

FUNC_SRC = '''
def f(a, b=5, **kwargs):
    """
    Summary line

    :param a: the a
    :type a: ```int```

    :param b: the b
    :type b: ```int```

    :param kwargs: extra keyword arguments

    :returns: the result
    :rtype: ```int```
    """
    total = a + b
    print(total, b)
    return total
'''

METHOD_SRC = '''
class C(object):
    """
    Class doc

    :cvar z: the z
    """
    z: int = 3

    def f(self, a, b=5):
        """
        Summary line

        :param a: the a
        :type a: ```int```

        :param b: the b
        :type b: ```int```

        :returns: the result
        :rtype: ```int```
        """
        total = a + b
        return total
'''

CLASS_SRC = '''
class ConfigClass(object):
    """
    Summary line

    :cvar a: the a
    :cvar b: the b
    :cvar return_type: the result"""
    a: int = 0
    b: str = 'foo'
    return_type: int = 5
'''

ARGPARSE_SRC = '''
def set_cli_args(argument_parser):
    """
    Set CLI arguments

    :param argument_parser: argument parser
    :type argument_parser: ```ArgumentParser```

    :returns: argument_parser, the result
    :rtype: ```Tuple[ArgumentParser, int]```
    """
    argument_parser.description = 'Summary line'
    argument_parser.add_argument('--a', type=int, help='the a', required=True)
    argument_parser.add_argument('--b', help='the b', required=True, default='foo')
    extra = 1
    return argument_parser, 5
'''


def canon_ir(ir):
    def one(p):
        return [[k, repr(v) if not isinstance(v, ast.AST) else ast.dump(v)] for k, v in sorted(p.items())] if isinstance(p, dict) else repr(p)

    out = {"name": ir.get("name"), "type": ir.get("type"), "doc": ir.get("doc"),
           "params": [[n, one(p)] for n, p in (ir.get("params") or {}).items()],
           "returns": None if not ir.get("returns") else [[n, one(p)] for n, p in ir["returns"].items()],
           "has_returns_key": "returns" in ir}
    internal = ir.get("_internal")
    if internal:
        body = internal.get("body")
        if isinstance(body, dict):
            b = one(body)
        else:
            b = [ast.dump(n) if isinstance(n, ast.AST) else repr(n) for n in (body or [])]
        out["_internal"] = {"body": b, "from_name": internal.get("from_name"), "from_type": internal.get("from_type")}
    return json.dumps(out, sort_keys=True, default=repr)


def canon_ast(node):
    extras = []
    for n in ast.walk(node):
        for attr in ("_location", "_idx", "default"):
            if attr in getattr(n, "__dict__", {}):
                v = n.__dict__[attr]
                extras.append((type(n).__name__, attr, ast.dump(v) if isinstance(v, ast.AST) else repr(v)))
    return ast.dump(node) + "|" + repr(extras)


def first_diff(a, b):
    la, lb = str(a).splitlines(), str(b).splitlines()
    for i, (x, y) in enumerate(zip(la, lb)):
        if x != y:
            return "%d: %r != %r" % (i, core.short(x.strip(), 60), core.short(y.strip(), 60))
    return "length %d != %d" % (len(la), len(lb))


def ir_ops():
    from doctrans import emit
    from doctrans.source_transformer import to_code

    return OrderedDict([
        ("emit.class", lambda o: to_code(emit.class_(o))),
        ("emit.class_call", lambda o: to_code(emit.class_(o, emit_call=True))),
        ("emit.function", lambda o: to_code(emit.function(o, function_name="f", function_type="static"))),
        ("emit.method", lambda o: to_code(emit.function(o, function_name="f", function_type="self"))),
        ("emit.argparse", lambda o: to_code(emit.argparse_function(o))),
        ("emit.argparse_doc", lambda o: to_code(emit.argparse_function(o, emit_default_doc=True))),
        ("emit.rest", lambda o: emit.docstring(o, docstring_format="rest")),
        ("emit.numpydoc", lambda o: emit.docstring(o, docstring_format="numpydoc")),
        ("emit.google", lambda o: emit.docstring(o, docstring_format="google")),
        ("emit.rest_nodefault", lambda o: emit.docstring(o, docstring_format="rest", emit_default_doc=False)),
    ])


def ast_ops(kind):
    from doctrans import emit, parse
    from doctrans.source_transformer import to_code

    p = {"function": parse.function, "class": parse.class_, "argparse": parse.argparse_ast}[kind]
    ops = OrderedDict([
        ("parse", lambda n: canon_ir(p(n))),
        ("to_code", lambda n: to_code(n)),
        ("parse+emit.class_call", lambda n: to_code(emit.class_(p(n), emit_call=True))),
        ("parse+emit.function", lambda n: to_code(emit.function(p(n), function_name=None, function_type=None))),
        ("parse+emit.argparse", lambda n: to_code(emit.argparse_function(p(n)))),
    ])
    if kind == "class":
        ops["parse_merge_init"] = lambda n: canon_ir(parse.class_(n, merge_inner_function="__init__"))
    return ops


def initial_objects(tier):
    """(name, kind, builder) - builder returns a fresh object."""
    from doctrans import parse

    out = []
    A = al.A_RED
    ir_specs = [
        ("ir.empty", [], None, False),
        ("ir.one_default", [A[0]], None, False),
        ("ir.no_default", [A[1]], None, False),
        ("ir.two+ret", [A[0], A[2]], al.RETURNS[3], False),
        ("ir.two+retdefault", [A[1], A[3]], al.RETURNS[4], False),
        ("ir.kwargs+ret", [A[0]], al.RETURNS[5], True),
        ("ir.none_default", [A[5], A[7]], None, True),
        ("ir.untyped+noprose", [A[8], A[9]], al.RETURNS[2], False),
        ("ir.code_default", [A[10], A[11]], al.RETURNS[1], False),
    ]
    if tier == "thorough":
        for i, a in enumerate(A):
            ir_specs.append(("ir.atom%d" % i, [a], al.RETURNS[3] if i % 2 else None, bool(i % 3 == 0)))
            ir_specs.append(("ir.atom%d+ret" % i, [A[0], a], al.RETURNS[4], False))
    for name, atoms, ret, kw in ir_specs:
        out.append((name, "ir", (lambda atoms=atoms, ret=ret, kw=kw: al.make_ir(atoms, ret, kw, 0))))

    def parsed(src, fn, pick=lambda m: m.body[0]):
        return lambda: fn(pick(ast.parse(src)))

    out.append(("ir.from_function_with_body", "ir", parsed(FUNC_SRC, parse.function)))
    out.append(("ir.from_method_with_body", "ir", parsed(METHOD_SRC, parse.function, lambda m: m.body[0].body[2])))
    out.append(("ir.from_class", "ir", parsed(CLASS_SRC, parse.class_)))
    out.append(("ir.from_argparse_with_body", "ir", parsed(ARGPARSE_SRC, parse.argparse_ast)))
    out.append(("ast.function", "ast:function", lambda: ast.parse(FUNC_SRC).body[0]))
    out.append(("ast.method", "ast:function", lambda: ast.parse(METHOD_SRC).body[0].body[2]))
    out.append(("ast.class", "ast:class", lambda: ast.parse(CLASS_SRC).body[0]))
    out.append(("ast.class_with_method", "ast:class", lambda: ast.parse(METHOD_SRC).body[0]))
    out.append(("ast.argparse", "ast:argparse", lambda: ast.parse(ARGPARSE_SRC).body[0]))
    return out


class C13(core.Check):
    id = "C13"
    level = "model_checking"
    rule = ("explicit-state BFS to closure over the states of one shared object (IR dict or AST) under every emit/parse "
            "call; a state is the canonical serialisation of the object (parameter dicts, return entry, carried body "
            "statements, ancestry attributes); each transition executes the real call on a deep copy of the state and "
            "compares its output with the same call on a fresh copy of the initial object; closure covers call "
            "sequences of any length")
    assumptions = ("a call that raises on the fresh object is compared by exception class (raising identically is not "
                   "interference)", "state cap %d per initial object (reported if hit)" % STATE_CAP)

    def space(self):
        self._inits = initial_objects(self.tier)
        return core.Listed([{"init": n} for n, _, _ in self._inits], note="one case per initial shared object")

    def run_case(self, case):
        inits = {n: (k, b) for n, k, b in initial_objects(self.tier)}
        kind, build = inits[case["init"]]
        if kind == "ir":
            ops, canon = ir_ops(), canon_ir
        else:
            ops, canon = ast_ops(kind.split(":")[1]), canon_ast

        def run(op, obj):
            try:
                return ops[op](obj)
            except Exception as e:
                return "RAISE:%s" % type(e).__name__

        baseline = {op: run(op, build()) for op in ops}
        init = build()
        s0 = canon(init)
        states = {s0: (init, ())}
        frontier = deque([s0])
        transitions = 0
        sites = []
        capped = False
        while frontier:
            s = frontier.popleft()
            obj, path = states[s]
            for op in ops:
                work = copy.deepcopy(obj)
                out = run(op, work)
                transitions += 1
                facts = {"init": case["init"], "op": op, "after": ">".join(path) or "<initial>"}
                if out == baseline[op]:
                    sites.append(site(True, facts))
                else:
                    sites.append(site(False, facts, fail="output_differs", diff=core.short(first_diff(baseline[op], out), 160)))
                s2 = canon(work)
                if s2 not in states:
                    if len(states) >= STATE_CAP:
                        capped = True
                        continue
                    states[s2] = (work, path + (op,))
                    frontier.append(s2)
        counters = {"states": set(case["init"] + "|" + s for s in states), "transitions": transitions,
                    "traces_validated_against_impl": transitions, "state_cap_hits": int(capped)}
        return sites, [case["init"], len(states)], [case["init"], len(states), transitions], counters


CHECK = C13
