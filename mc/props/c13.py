"""
C13 - conversions do not interfere through shared inputs.  E2: explicit-state exploration of the
*shared-object graph*.

State  = canonical serialisation of the one object (IR dict, or AST node) that every call shares
Event  = one real emit / parse call on that object
Search = BFS to closure from each initial object (the object is rebuilt by deep copy for every transition, so
         nothing aliases between executions).  Because each call's output is a function of the object's state,
         closure covers call sequences of *any* length, permutations and repetitions included.
Oracle = on every transition the call's output equals the output of the same call on a fresh copy of the
         *initial* object.
"""
import ast
import copy
import hashlib
import itertools
import json
import os
import shutil
import tempfile
from collections import OrderedDict, deque

from mc import alphabets as al
from mc import core
from mc.core import site

STATE_CAP = 400

FUNC_SRC = '''
def f(a, b=5, **kwargs):
    """
    Summary line

    :param a: the a
    :type a: ```int```

    :param b: the b
    :type b: ```int```

    :param kwargs: extra keyword arguments

    :returns: the result
    :rtype: ```int```
    """
    total = a + b
    print(total, b)
    return total
'''

METHOD_SRC = '''
class C(object):
    """
    Class doc

    :cvar z: the z
    """
    z: int = 3

    def f(self, a, b=5):
        """
        Summary line

        :param a: the a
        :type a: ```int```

        :param b: the b
        :type b: ```int```

        :returns: the result
        :rtype: ```int```
        """
        total = a + b
        return total
'''

RETURN_NONE_SRC = '''
def g(a=1, flag=False):
    """
    Summary line

    :param a: the a

    :param flag: the flag
    """
    if flag:
        print(a)
    return None
'''

BLANK_DOC_FUNC_SRC = 'def blank(gamma=3, delta=4):\n    """   """\n    return gamma\n'
BLANK_DOC_CLASS_SRC = 'class Blank(object):\n    """"""\n    alpha: int = 1\n    beta: str = "b"\n'

POSONLY_METHOD_SRC = '''
class P(object):
    def m(self, /, a, b=5, *, k=1):
        """
        Summary line

        :param a: the a
        :param b: the b
        :param k: the k
        """
        return a
'''

INIT_STRING_ANN_CLASS_SRC = '''
class Node(object):
    """
    A node

    :cvar parent: the parent
    :cvar weight: the weight
    """

    def __init__(self, parent: "Node" = None, weight: "float" = 1.0):
        """
        init doc

        :param parent: the parent
        :param weight: the weight
        """
        self.parent = parent
'''

LAMBDA_FUNC_SRC = '''
def g(a, b=5):
    """
    Summary line

    :param a: the a
    :type a: ```int```

    :param b: the b
    :type b: ```int```

    :returns: the result
    :rtype: ```int```
    """
    total = a + b
    scale = lambda b: b * 2

    def inner(a):
        return a + total

    return scale(total) + inner(b)
'''

THIS_RECEIVER_CLASS_SRC = '''
class Scaler(object):
    """
    A scaler

    :cvar factor: the factor
    """
    factor: int = 2

    def __call__(this, value: int = 1, offset=0):
        """
        Scale

        :param value: the value
        :param offset: the offset
        """
        return value * this.factor + offset
'''

MODULE_DOC_PLUS_CLASS_SRC = '''"""Settings of the package."""


class Settings(object):
    debug: bool = False
    level: int = 3
'''

STRING_ANN_CLASS_SRC = '''
class Lazy(object):
    """
    Summary line

    :cvar alpha: the alpha
    :cvar beta: the beta"""
    alpha: "int" = 3
    beta: "Optional[str]" = None
'''

CLASS_SRC = '''
class ConfigClass(object):
    """
    Summary line

    :cvar a: the a
    :cvar b: the b
    :cvar return_type: the result"""
    a: int = 0
    b: str = 'foo'
    return_type: int = 5
'''

ARGPARSE_SRC = '''
def set_cli_args(argument_parser):
    """
    Set CLI arguments

    :param argument_parser: argument parser
    :type argument_parser: ```ArgumentParser```

    :returns: argument_parser, the result
    :rtype: ```Tuple[ArgumentParser, int]```
    """
    argument_parser.description = 'Summary line'
    argument_parser.add_argument('--a', type=int, help='the a', required=True)
    argument_parser.add_argument('--b', help='the b', required=True, default='foo')
    extra = 1
    return argument_parser, 5
'''


def canon_ir(ir):
    def one(p):
        return [[k, repr(v) if not isinstance(v, ast.AST) else ast.dump(v)] for k, v in sorted(p.items())] if isinstance(p, dict) else repr(p)

    out = {"name": ir.get("name"), "type": ir.get("type"), "doc": ir.get("doc"),
           "params": [[n, one(p)] for n, p in (ir.get("params") or {}).items()],
           "returns": None if not ir.get("returns") else [[n, one(p)] for n, p in ir["returns"].items()],
           "has_returns_key": "returns" in ir}
    internal = ir.get("_internal")
    if internal:
        body = internal.get("body")
        if isinstance(body, dict):
            b = one(body)
        else:
            b = [ast.dump(n) if isinstance(n, ast.AST) else repr(n) for n in (body or [])]
        out["_internal"] = {"body": b, "from_name": internal.get("from_name"), "from_type": internal.get("from_type")}
    return json.dumps(out, sort_keys=True, default=repr)


def canon_ast(node):
    extras = []
    for n in ast.walk(node):
        for attr in ("_location", "_idx", "default"):
            if attr in getattr(n, "__dict__", {}):
                v = n.__dict__[attr]
                extras.append((type(n).__name__, attr, ast.dump(v) if isinstance(v, ast.AST) else repr(v)))
    return ast.dump(node) + "|" + repr(extras)


def first_diff(a, b):
    la, lb = str(a).splitlines(), str(b).splitlines()
    for i, (x, y) in enumerate(zip(la, lb)):
        if x != y:
            return "%d: %r != %r" % (i, core.short(x.strip(), 60), core.short(y.strip(), 60))
    return "length %d != %d" % (len(la), len(lb))


def ir_ops():
    from doctrans import emit
    from doctrans.defaults_utils import remove_defaults_from_intermediate_repr
    from doctrans.source_transformer import to_code

    return OrderedDict([
        ("emit.class", lambda o: to_code(emit.class_(o))),
        ("emit.class_call", lambda o: to_code(emit.class_(o, emit_call=True))),
        ("emit.function", lambda o: to_code(emit.function(o, function_name="f", function_type="static"))),
        ("emit.method", lambda o: to_code(emit.function(o, function_name="f", function_type="self"))),
        ("emit.argparse", lambda o: to_code(emit.argparse_function(o))),
        ("emit.argparse_doc", lambda o: to_code(emit.argparse_function(o, emit_default_doc=True))),
        ("emit.rest", lambda o: emit.docstring(o, docstring_format="rest")),
        ("emit.numpydoc", lambda o: emit.docstring(o, docstring_format="numpydoc")),
        ("emit.google", lambda o: emit.docstring(o, docstring_format="google")),
        ("emit.rest_nodefault", lambda o: emit.docstring(o, docstring_format="rest", emit_default_doc=False)),
        # one deviation from the default options per emitter
        ("emit.class_doc", lambda o: to_code(emit.class_(o, emit_default_doc=True))),
        ("emit.class_nowrap", lambda o: to_code(emit.class_(o, word_wrap=False))),
        ("emit.function_doc", lambda o: to_code(emit.function(o, function_name="f", function_type="static", emit_default_doc=True))),
        ("emit.function_doctypes", lambda o: to_code(emit.function(o, function_name="f", function_type="cls", inline_types=False,
                                                                  emit_as_kwonlyargs=False))),
        ("emit.function_from_ir", lambda o: to_code(emit.function(o, function_name=None, function_type=None))),
        ("emit.argparse_nowrap", lambda o: to_code(emit.argparse_function(o, word_wrap=False, wrap_description=True))),
        ("emit.numpydoc_nowrap", lambda o: emit.docstring(o, docstring_format="numpydoc", word_wrap=False)),
        # the shared description handed over by keyword
        ("emit.class_kw", lambda o: to_code(emit.class_(intermediate_repr=o, emit_default_doc=True))),
        ("emit.function_kw", lambda o: to_code(emit.function(intermediate_repr=o, function_name="f", function_type="static"))),
        ("emit.argparse_kw", lambda o: to_code(emit.argparse_function(intermediate_repr=o))),
        ("emit.rest_kw", lambda o: emit.docstring(intermediate_repr=o)),
        # the public helper that hands back a description without defaults
        ("remove_defaults", lambda o: canon_ir(remove_defaults_from_intermediate_repr(o))),
        ("remove_defaults_prop_off", lambda o: canon_ir(remove_defaults_from_intermediate_repr(o, emit_default_prop=False))),
    ])


def ast_ops(kind):
    from doctrans import emit, parse
    from doctrans.source_transformer import to_code

    p = {"function": parse.function, "class": parse.class_, "argparse": parse.argparse_ast}[kind]
    ops = OrderedDict([
        ("parse", lambda n: canon_ir(p(n))),
        ("to_code", lambda n: to_code(n)),
        ("parse+emit.class_call", lambda n: to_code(emit.class_(p(n), emit_call=True))),
        ("parse+emit.function", lambda n: to_code(emit.function(p(n), function_name=None, function_type=None))),
        ("parse+emit.argparse", lambda n: to_code(emit.argparse_function(p(n)))),
    ])
    if kind == "class":
        ops["parse_merge_init"] = lambda n: canon_ir(parse.class_(n, merge_inner_function="__init__"))
        ops["parse_merge_call"] = lambda n: canon_ir(parse.class_(n, merge_inner_function="__call__"))
    return ops


def initial_objects(tier):
    """(name, kind, builder) - builder returns a fresh object."""
    from doctrans import parse

    out = []
    A = al.A_RED
    ir_specs = [
        ("ir.empty", [], None, False),
        ("ir.one_default", [A[0]], None, False),
        ("ir.no_default", [A[1]], None, False),
        ("ir.two+ret", [A[0], A[2]], al.RETURNS[3], False),
        ("ir.two+retdefault", [A[1], A[3]], al.RETURNS[4], False),
        ("ir.kwargs+ret", [A[0]], al.RETURNS[5], True),
        ("ir.none_default", [A[5], A[7]], None, True),
        ("ir.untyped+noprose", [A[8], A[9]], al.RETURNS[2], False),
        ("ir.code_default", [A[10], A[11]], al.RETURNS[1], False),
    ]
    if tier == "thorough":
        for i, a in enumerate(A):
            ir_specs.append(("ir.atom%d" % i, [a], al.RETURNS[3] if i % 2 else None, bool(i % 3 == 0)))
            ir_specs.append(("ir.atom%d+ret" % i, [A[0], a], al.RETURNS[4], False))
    for name, atoms, ret, kw in ir_specs:
        out.append((name, "ir", (lambda atoms=atoms, ret=ret, kw=kw: al.make_ir(atoms, ret, kw, 0))))

    def parsed(src, fn, pick=lambda m: m.body[0]):
        return lambda: fn(pick(ast.parse(src)))

    out.append(("ir.from_function_with_body", "ir", parsed(FUNC_SRC, parse.function)))
    out.append(("ir.from_method_with_body", "ir", parsed(METHOD_SRC, parse.function, lambda m: m.body[0].body[2])))
    out.append(("ir.from_function_return_none", "ir", parsed(RETURN_NONE_SRC, parse.function)))
    out.append(("ir.from_blank_docstring_function", "ir", parsed(BLANK_DOC_FUNC_SRC, parse.function)))
    out.append(("ir.from_blank_docstring_class", "ir", parsed(BLANK_DOC_CLASS_SRC, parse.class_)))
    out.append(("ir.from_function_with_lambda", "ir", parsed(LAMBDA_FUNC_SRC, parse.function)))
    out.append(("ir.from_class", "ir", parsed(CLASS_SRC, parse.class_)))
    out.append(("ir.from_argparse_with_body", "ir", parsed(ARGPARSE_SRC, parse.argparse_ast)))
    out.append(("ast.function", "ast:function", lambda: ast.parse(FUNC_SRC).body[0]))
    out.append(("ast.method", "ast:function", lambda: ast.parse(METHOD_SRC).body[0].body[2]))
    out.append(("ast.class", "ast:class", lambda: ast.parse(CLASS_SRC).body[0]))
    out.append(("ast.class_with_method", "ast:class", lambda: ast.parse(METHOD_SRC).body[0]))
    out.append(("ast.class_string_annotations", "ast:class", lambda: ast.parse(STRING_ANN_CLASS_SRC).body[0]))
    out.append(("ast.class_call_with_odd_receiver", "ast:class", lambda: ast.parse(THIS_RECEIVER_CLASS_SRC).body[0]))
    out.append(("ast.module_docstring_plus_class", "ast:class", lambda: ast.parse(MODULE_DOC_PLUS_CLASS_SRC)))
    out.append(("ast.class_init_string_annotations", "ast:class", lambda: ast.parse(INIT_STRING_ANN_CLASS_SRC).body[0]))
    out.append(("ast.method_posonly_receiver", "ast:function", lambda: ast.parse(POSONLY_METHOD_SRC).body[0].body[0]))
    out.append(("ast.class_with_posonly_method", "ast:class", lambda: ast.parse(POSONLY_METHOD_SRC).body[0]))
    out.append(("ast.argparse", "ast:argparse", lambda: ast.parse(ARGPARSE_SRC).body[0]))
    return out


def foreign_ops():
    """Calls that do not take the shared object at all: whatever they leave behind in the library must not reach it."""
    from doctrans import emit, parse
    from doctrans.source_transformer import to_code

    return OrderedDict([
        ("foreign.parse_blank_docstring_function", lambda o: canon_ir(parse.function(ast.parse(BLANK_DOC_FUNC_SRC.replace("gamma", "eps")).body[0]))),
        ("foreign.parse_blank_docstring_class", lambda o: canon_ir(parse.class_(ast.parse(BLANK_DOC_CLASS_SRC.replace("alpha", "omega")).body[0]))),
        ("foreign.parse_function_with_body", lambda o: canon_ir(parse.function(ast.parse(FUNC_SRC.replace("total", "acc")).body[0]))),
        ("foreign.parse_argparse", lambda o: canon_ir(parse.argparse_ast(ast.parse(ARGPARSE_SRC.replace("'foo'", "'bar'")).body[0]))),
        ("foreign.emit_class_of_other", lambda o: to_code(emit.class_(al.make_ir([al.A_RED[2], al.A_RED[4]], al.RETURNS[4], False, 0),
                                                                         emit_default_doc=True))),
    ])


def _forked(build, ops, seq):
    """Run ``seq`` (op names) on one live object built in a child forked from this process; returns output digests."""
    r, w = os.pipe()
    pid = os.fork()
    if pid == 0:
        try:
            os.close(r)
            outs = []
            try:
                obj = build()
                for op in seq:
                    try:
                        out = ops[op](obj)
                    except Exception as e:
                        out = "RAISE:%s" % type(e).__name__
                    outs.append(hashlib.sha256(str(out).encode()).hexdigest()[:16] + ("|" + out if str(out).startswith("RAISE") else ""))
            except BaseException as e:  # the builder itself failed
                outs = ["BUILD-RAISE:%s" % type(e).__name__]
            os.write(w, json.dumps(outs).encode())
        finally:
            os._exit(0)
    os.close(w)
    buf = b""
    while True:
        chunk = os.read(r, 65536)
        if not chunk:
            break
        buf += chunk
    os.close(r)
    os.waitpid(pid, 0)
    return json.loads(buf.decode()) if buf else None


SYNC_PRE = ("missing", "empty", "nodef", "v2", "v1")
SYNC_BODY = "total = 0\nprint(total)"


def sync_cases():
    from mc import project as pj

    out = []
    for truth in pj.KINDS:
        others = [k for k in pj.KINDS if k != truth]
        for x, y in ((others[0], others[1]), (others[1], others[0])):
            for px in SYNC_PRE:
                for py in SYNC_PRE:
                    out.append({"part": "sync", "truth": truth, "x": x, "y": y, "prex": px, "prey": py, "extra": False})
        # x is a second file of the truth's own kind
        for y in others:
            for px in SYNC_PRE:
                for py in SYNC_PRE:
                    out.append({"part": "sync", "truth": truth, "x": truth, "y": y, "prex": px, "prey": py, "extra": True})
    return out


class C13(core.Check):
    id = "C13"
    level = "model_checking"
    rule = ("explicit-state BFS to closure over the states of one shared object (IR dict or AST) under every emit/parse "
            "call; a state is the canonical serialisation of the object (parameter dicts, return entry, carried body "
            "statements, ancestry attributes); each transition executes the real call on a deep copy of the state and "
            "compares its output with the same call on a fresh copy of the initial object; closure covers call "
            "sequences of any length")
    assumptions = ("a call that raises on the fresh object is compared by exception class (raising identically is not "
                   "interference)", "state cap %d per initial object (reported if hit)" % STATE_CAP)

    def space(self):
        self._inits = initial_objects(self.tier)
        cases = [{"init": n} for n, _, _ in self._inits]
        # live histories: the object is *not* copied between calls, foreign calls are interleaved
        maxlen = 3 if self.tier == "thorough" else 2
        quick_inits = None if self.tier == "thorough" else {n for n, _, _ in self._inits if not n.startswith("ir.atom")}
        for n, kind, _ in self._inits:
            if quick_inits is not None and n not in quick_inits:
                continue
            if self.tier == "thorough" and n.startswith("ir.atom"):
                continue
            names = list(ir_ops() if kind == "ir" else ast_ops(kind.split(":")[1])) + list(foreign_ops())
            own = [o for o in names if not o.startswith("foreign.")]
            for L in range(2, maxlen + 1):
                for seq in itertools.product(names, repeat=L):
                    if not seq[-1] in own:
                        continue  # the last call observes the shared object
                    if L == 3 and not any(o.startswith("foreign.") for o in seq[:2]) and kind == "ir":
                        continue  # three own calls on an IR are covered to closure by the copy-based search
                    cases.append({"part": "live", "init": n, "seq": list(seq)})
        cases += sync_cases()
        return core.Listed(cases, note="one case per initial shared object (closure search), per live call sequence, per sync pair")

    def run_live(self, case):
        inits = {n: (k, b) for n, k, b in initial_objects(self.tier)}
        kind, build = inits[case["init"]]
        ops = OrderedDict(ir_ops() if kind == "ir" else ast_ops(kind.split(":")[1]))
        ops.update(foreign_ops())
        if not hasattr(self, "_solo"):
            self._solo = {}
        for op in set(case["seq"]):
            key = (case["init"], op)
            if key not in self._solo:
                self._solo[key] = _forked(build, ops, [op])[0]
        outs = _forked(build, ops, case["seq"])
        sites = []
        for pos, op in enumerate(case["seq"]):
            facts = {"part": "live", "init": case["init"], "op": op, "after": ">".join(case["seq"][:pos]) or "<initial>"}
            got = outs[pos] if outs and pos < len(outs) else None
            sites.append(site(got == self._solo[(case["init"], op)], facts, fail="output_differs_from_solo", got=got,
                              solo=self._solo[(case["init"], op)]))
        return sites, [case["init"]] + case["seq"], [case["init"], case["seq"], outs], {"live_sequences": 1}

    def run_sync(self, case):
        """What one target receives must not depend on which other targets are brought up to date in the same run."""
        from mc import project as pj

        if not hasattr(self, "_dir"):
            self._dir = tempfile.mkdtemp(prefix="c13_%d_" % os.getpid())
            import atexit

            atexit.register(shutil.rmtree, self._dir, True)
        truth, x, y = case["truth"], case["x"], case["y"]
        results = []
        for with_y in (False, True):
            shutil.rmtree(self._dir, ignore_errors=True)
            P = pj.Project(self._dir)
            P.write(truth, pj.render(truth, "v1", None, None, SYNC_BODY if truth != "class" else ""))
            if case["extra"]:
                P.extra = {truth: ["extra_" + pj.FILES[truth]]}
                xpath = P.extra_paths(truth)[0]
                txt = pj.prestate_text(truth, case["prex"], "v1")
                if txt is not None:
                    with open(xpath, "w") as f:
                        f.write(txt)
            else:
                xpath = P.path(x)
                P.write(x, pj.prestate_text(x, case["prex"], "v1"))
            if with_y:
                P.write(y, pj.prestate_text(y, case["prey"], "v1"))
            kinds = [k for k in pj.KINDS if k == truth or (k == x and not case["extra"]) or (with_y and k == y)]
            if case["extra"] and not with_y:
                kinds = [truth]
            exc, rep, out = P.sync(truth, kinds, "api")
            results.append((type(exc).__name__ if exc is not None else None,
                            open(xpath).read() if os.path.exists(xpath) else None))
        facts = {"part": "sync", "truth": pj.SHORT[truth], "x": pj.SHORT[x] + ("2" if case["extra"] else ""), "y": pj.SHORT[y],
                 "prex": case["prex"], "prey": case["prey"]}
        (e1, t1), (e2, t2) = results
        sites = [site(e1 == e2 and t1 == t2, facts, fail="target_depends_on_other_targets_in_the_run", alone_exc=e1, together_exc=e2,
                      diff=core.short(first_diff(t1 or "", t2 or ""), 120) if t1 != t2 else None)]
        return sites, core.jkey(case), [core.jkey(case), t1 == t2], {"sync_pairs": 1}

    def run_case(self, case):
        if case.get("part") == "live":
            return self.run_live(case)
        if case.get("part") == "sync":
            return self.run_sync(case)
        inits = {n: (k, b) for n, k, b in initial_objects(self.tier)}
        kind, build = inits[case["init"]]
        if kind == "ir":
            ops, canon = ir_ops(), canon_ir
        else:
            ops, canon = ast_ops(kind.split(":")[1]), canon_ast

        def run(op, obj):
            try:
                return ops[op](obj)
            except Exception as e:
                return "RAISE:%s" % type(e).__name__

        baseline = {op: run(op, build()) for op in ops}
        init = build()
        s0 = canon(init)
        states = {s0: (init, ())}
        frontier = deque([s0])
        transitions = 0
        sites = []
        capped = False
        while frontier:
            s = frontier.popleft()
            obj, path = states[s]
            for op in ops:
                work = copy.deepcopy(obj)
                out = run(op, work)
                transitions += 1
                facts = {"init": case["init"], "op": op, "after": ">".join(path) or "<initial>"}
                if out == baseline[op]:
                    sites.append(site(True, facts))
                else:
                    sites.append(site(False, facts, fail="output_differs", diff=core.short(first_diff(baseline[op], out), 160)))
                s2 = canon(work)
                if s2 not in states:
                    if len(states) >= STATE_CAP:
                        capped = True
                        continue
                    states[s2] = (work, path + (op,))
                    frontier.append(s2)
        counters = {"states": set(case["init"] + "|" + s for s in states), "transitions": transitions,
                    "traces_validated_against_impl": transitions, "state_cap_hits": int(capped)}
        return sites, [case["init"], len(states)], [case["init"], len(states), transitions], counters


CHECK = C13
