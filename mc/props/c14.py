"""
C14 - sync_properties changes exactly the addressed property.

Programs (E1): input module = every order of {annotated assignment, class with attribute + method, function with
positional / defaulted / keyword-only arguments}; output module likewise (different names); every addressable input
location x every addressable output location plus non-resolving addresses, 1..3 pairs per call, with / without wrap
template, eval on / off, through the API and through the command line.
Oracle (independent, over ``ast``): input bytes identical; output parses; with the addressed nodes (and their own
default slot) masked, the tree is unchanged; each addressed node carries the expected annotation; an address that
does not resolve raises / exits non-zero and leaves the output file untouched.
"""
import ast
import itertools
import os
import shutil
import tempfile

from mc import boot, core
from mc.core import site
from mc.props.c15 import resolve

IN_ITEMS = [
    ("Y", "Y: int = 2\n"),
    ("A", "class A(object):\n    attr: complex = 3j\n    opt: Optional[str] = None\n\n    def m(self, a: bytes, b=2):\n        return a\n"),
    ("g", "def g(a: float, b: str = 'bb', *, k: bool = True):\n    return a\n"),
]
OUT_ITEMS = [
    ("Q", "Q: str = 'q'\n"),
    ("AA", "class AA(object):\n    att: int = 30\n\n    def mm(self, u: int, v=20):\n        return u\n\n"
           "    @classmethod\n    def cm(cls, u: int = 1, v=20, w: str = 'w'):\n        return u\n"),
    ("gg", "def gg(u, v: int = 7, *, w=None):\n    return u\n"),
    # module-level names equal to the class attribute / an argument name, to tempt a lookup by simple name
    ("shadow", "att: int = 99\nu: int = 98\n"),
]
EVAL_PREFIX = ("from typing import Optional\nVALS = ('a', 'b', {tag!r})\nNUMS = (1, 2, {num})\n"
               # evaluated collections with a repeated member / members that are equal across types
               "DUPS = ('x', {tag!r}, 'x')\nMIXED = (0, False, 1, True, {num})\n")
IN_LOCS = ["Y", "A.attr", "A.opt", "A.m.a", "A.m.b", "g.a", "g.b", "g.k"]
OUT_LOCS = ["Q", "AA.att", "AA.mm.u", "AA.mm.v", "gg.u", "gg.v", "gg.w", "AA.cm.u", "AA.cm.v"]
BAD_IN = ["Z", "A.zz", "g.zz"]
BAD_OUT = ["ZZ", "gg.zz", "AA.mm.zz"]
WRAP = "Optional[{output_param}]"
ORDERS = list(itertools.permutations(range(3)))
# output module orders: the 6 orders of the three definitions, each with the shadowing assignments first, last or absent
OUT_ORDERS = [o + t for o in ORDERS for t in ((), (3,))] + [(3,) + o for o in ORDERS]


def build_cases(tier):
    cases = []
    orders_in = range(6)
    # quick: the 6 plain orders plus 3 with the shadowing assignments in front and 3 with them behind
    orders_out = range(len(OUT_ORDERS)) if tier == "thorough" else [0, 2, 4, 6, 8, 10, 1, 5, 9, 12, 14, 16]
    # single pairs: everything
    for oi in orders_in:
        for oo in orders_out:
            for i in IN_LOCS + BAD_IN:
                for o in OUT_LOCS + BAD_OUT:
                    for wrap in (False, True):
                        if (i in BAD_IN or o in BAD_OUT) and wrap:
                            continue
                        cases.append({"oi": oi, "oo": oo, "pairs": [[i, o]], "wrap": wrap, "eval": False, "via": "api"})
                        if not wrap and (tier == "thorough" or oi * 2 == oo):
                            cases.append({"oi": oi, "oo": oo, "pairs": [[i, o]], "wrap": wrap, "eval": False, "via": "cli"})
    # several pairs per call: class-first and function-first orders
    multi_orders = [(0, 0), (5, 10), (0, 12)] if tier == "quick" else [(a, b) for a in (0, 2, 5) for b in (0, 6, 10, 12, 15)]
    ins2 = ["Y", "g.a", "A.attr"]
    for oi, oo in multi_orders:
        for o1, o2 in itertools.permutations(OUT_LOCS, 2):
            for i1, i2 in itertools.product(ins2, repeat=2):
                for wrap in (False, True):
                    cases.append({"oi": oi, "oo": oo, "pairs": [[i1, o1], [i2, o2]], "wrap": wrap, "eval": False, "via": "api"})
        for o3 in itertools.combinations(OUT_LOCS, 3):
            for rot in range(3):
                ii = ins2[rot:] + ins2[:rot]
                cases.append({"oi": oi, "oo": oo, "pairs": [[ii[0], o3[0]], [ii[1], o3[1]], [ii[2], o3[2]]], "wrap": False,
                              "eval": False, "via": "api"})
        # a resolvable pair followed by an unresolvable one: nothing may be written
        for o1 in OUT_LOCS:
            cases.append({"oi": oi, "oo": oo, "pairs": [["Y", o1], ["g.a", "ZZ"]], "wrap": False, "eval": False, "via": "api"})
    # an earlier pair's output name is a later pair's input address (the input module defines Q and att as well)
    for oi, oo in multi_orders:
        for wrap in (False, True):
            for pairs in ([["Y", "Q"], ["Q", "gg.v"]], [["Q", "gg.v"], ["Y", "Q"]], [["A.attr", "AA.att"], ["att", "gg.u"]],
                          [["Y", "Q"], ["Q", "AA.att"], ["att", "gg.w"]]):
                cases.append({"oi": oi, "oo": oo, "pairs": pairs, "wrap": wrap, "eval": False, "via": "api", "overlap": True})
    # the input property is a plain (un-annotated) assignment at module level / in a class
    for oi, oo in multi_orders:
        for i in ("X", "P.plain"):
            for o in OUT_LOCS:
                # (no wrap template here: an un-annotated input has no annotation to wrap, and doctrans says so)
                cases.append({"oi": oi, "oo": oo, "pairs": [[i, o]], "wrap": False, "eval": False, "via": "api", "plain_assign": True})
    # the input property has the same name as the addressed argument (its value then becomes the argument's default)
    for oi, oo in multi_orders:
        for wrap in (False, True):
            for o in OUT_LOCS:
                leaf = o.split(".")[-1]
                if "." in o and leaf in ("u", "v", "w"):
                    cases.append({"oi": oi, "oo": oo, "pairs": [[leaf, o]], "wrap": wrap, "eval": False, "via": "api", "overlap": True})
    # the leaf name of the input address is also a module-level annotated name that stands *before* the class / function
    for oi, oo in multi_orders:
        for i in ("A.attr", "A.opt", "g.b", "g.k", "A.m.b"):
            for o in OUT_LOCS[:5]:
                cases.append({"oi": oi, "oo": oo, "pairs": [[i, o]], "wrap": False, "eval": False, "via": "api", "leaf_before": True})
    # the output module opens with a chained assignment (``ca = cb = 1``) and ends by re-assigning its first name; the statement
    # is addressed by the name that only it defines
    for oi, oo in multi_orders:
        for i in ("Y", "A.attr", "A.opt", "g.a", "g.b"):
            for wrap in (False, True):
                cases.append({"oi": oi, "oo": oo, "pairs": [[i, "cb"]], "wrap": wrap, "eval": False, "via": "api", "chained": True})
        cases.append({"oi": oi, "oo": oo, "pairs": [["Y", "cb"], ["g.a", "gg.v"]], "wrap": False, "eval": False, "via": "api", "chained": True})
        cases.append({"oi": oi, "oo": oo, "pairs": [["VALS", "cb"]], "wrap": False, "eval": True, "via": "api", "chained": True})
    # eval mode with the wrap template and several pairs (the same evaluated input used twice, two different inputs)
    for oi, oo in multi_orders:
        for wrap in (False, True):
            for n1, n2 in (("VALS", "VALS"), ("VALS", "NUMS"), ("NUMS", "VALS")):
                for o1, o2 in list(itertools.permutations(OUT_LOCS, 2))[::3]:
                    cases.append({"oi": oi, "oo": oo, "pairs": [[n1, o1], [n2, o2]], "wrap": wrap, "eval": True, "via": "api"})
            for name in ("VALS", "NUMS"):
                for o in OUT_LOCS:
                    cases.append({"oi": oi, "oo": oo, "pairs": [[name, o]], "wrap": True, "eval": True, "via": "api"})
    # eval mode (top level only)
    for oi in orders_in:
        for oo in orders_out:
            for name in ("VALS", "NUMS", "DUPS", "MIXED"):
                if name in ("DUPS", "MIXED") and tier == "quick" and oi > 1:
                    continue
                for o in OUT_LOCS + BAD_OUT[:1]:
                    cases.append({"oi": oi, "oo": oo, "pairs": [[name, o]], "wrap": False, "eval": True, "via": "api"})
                    if oi * 2 == oo:
                        cases.append({"oi": oi, "oo": oo, "pairs": [[name, o]], "wrap": False, "eval": True, "via": "cli"})
    return cases


def module_src(items, order, prefix=""):
    table = OUT_ORDERS if items is OUT_ITEMS else ORDERS
    return prefix + "\n".join(items[i][1] for i in table[order])


def order_name(items, order):
    table = OUT_ORDERS if items is OUT_ITEMS else ORDERS
    return ">".join(items[i][0] for i in table[order])


# ----------------------------------------------------------------------------- structural addressing / masking
def address(tree, path):
    """Structural address of the node at qualified ``path``: list of steps from the module root, or None."""
    steps = []
    scope = tree
    for seg in path:
        if isinstance(scope, (ast.Module, ast.ClassDef)):
            for idx, n in enumerate(scope.body):
                nm = getattr(n, "name", None)
                if nm is None and isinstance(n, ast.AnnAssign) and isinstance(n.target, ast.Name):
                    nm = n.target.id
                if nm is None and isinstance(n, ast.Assign) and len(n.targets) == 1 and isinstance(n.targets[0], ast.Name):
                    nm = n.targets[0].id
                if nm is None and isinstance(n, ast.Assign) and len(n.targets) > 1 and isinstance(n.targets[-1], ast.Name) and n.targets[-1].id == seg:
                    nm = seg  # a chained assignment, addressed by its last name
                if nm == seg:
                    steps.append(("body", idx))
                    scope = n
                    break
            else:
                return None
        elif isinstance(scope, ast.FunctionDef):
            for field in ("args", "kwonlyargs"):
                lst = getattr(scope.args, field)
                hit = next((k for k, a in enumerate(lst) if a.arg == seg), None)
                if hit is not None:
                    steps.append((field, hit))
                    scope = lst[hit]
                    break
            else:
                return None
        else:
            return None
    return steps


def node_at(tree, steps):
    n = tree
    for field, idx in steps:
        if field == "body":
            n = n.body[idx]
        else:
            n = getattr(n.args, field)[idx]
    return n


def mask(tree, steps_list):
    """Replace the addressed nodes (and the default slot of addressed arguments) by placeholders, in place."""
    for steps in steps_list:
        parent = tree
        for field, idx in steps[:-1]:
            parent = parent.body[idx] if field == "body" else getattr(parent.args, field)[idx]
        field, idx = steps[-1]
        if field == "body":
            parent.body[idx] = ast.Pass()
        else:
            lst = getattr(parent.args, field)
            lst[idx] = ast.arg(arg="MASK", annotation=None)
            if field == "args":
                off = len(parent.args.args) - len(parent.args.defaults)
                if idx - off >= 0 and idx - off < len(parent.args.defaults):
                    parent.args.defaults[idx - off] = ast.Constant("MASKDEF")
            else:
                if idx < len(parent.args.kw_defaults):
                    parent.args.kw_defaults[idx] = ast.Constant("MASKDEF")
    return tree


def annotation_of(node):
    return getattr(node, "annotation", None)


class _Space(core.Space):
    def __init__(self, cases):
        self.cases = cases

    def __len__(self):
        return len(self.cases)

    def __getitem__(self, i):
        return self.cases[i]

    def describe(self):
        return {"calls": len(self.cases), "input_orders": 6, "output_orders": len(OUT_ORDERS), "input_locations": IN_LOCS + BAD_IN,
                "output_locations": OUT_LOCS + BAD_OUT}


class C14(core.Check):
    id = "C14"
    level = "exploration"
    rule = ("every generated (input module order, output module order, 1..3 location pairs, wrap, eval, API / CLI) call of "
            "sync_properties is executed on real files; input bytes, parseability, the masked output tree and the "
            "annotation of every addressed node are compared with an independent reference over ast; unresolvable "
            "addresses must raise and leave the output untouched; non-trivial = all addresses resolve; distinct = distinct call")
    assumptions = ("the replaced node may keep the output's name or take the input's; its own default slot may change; "
                   "every other node, including other arguments' defaults, must be identical",)

    def space(self):
        if not hasattr(self, "_cases"):
            self._cases = build_cases(self.tier)
        return _Space(self._cases)

    def run_case(self, case):
        boot.boot(need_cli=True)
        from doctrans.sync_properties import sync_properties

        if not hasattr(self, "_dir"):
            self._dir = tempfile.mkdtemp(prefix="c14_%d_" % os.getpid())
            import atexit

            atexit.register(shutil.rmtree, self._dir, True)
        # the evaluated values differ from call to call (a stale evaluation of an earlier input would show)
        self._calls = getattr(self, "_calls", 0) + 1
        tag, num = "t%d" % (self._calls % 7), 10 + self._calls % 5
        in_src = module_src(IN_ITEMS, case["oi"], EVAL_PREFIX.format(tag=tag, num=num) if case["eval"] else "from typing import Optional\n")
        if case.get("leaf_before"):
            in_src = "attr: bytes = b'm'\nopt: int = 1\nb: float = 0.5\nk: str = 'k'\n\n\n" + in_src
        if case.get("plain_assign"):
            in_src += "\nX = 7\n\n\nclass P(object):\n    plain = 'p'\n"
        if case.get("overlap"):
            in_src += "\nQ: float = 1.5\natt: bytes = b'x'\nu: float = 2.5\nv: int = 3\nw: bool = True\n"
        out_src = module_src(OUT_ITEMS, case["oo"])
        if case.get("chained"):
            out_src = "ca = cb = 1\n\n\n" + out_src + "\nca = 2\n"
        fin, fout = os.path.join(self._dir, "input_mod.py"), os.path.join(self._dir, "output_mod.py")
        with open(fin, "w") as f:
            f.write(in_src)
        with open(fout, "w") as f:
            f.write(out_src)
        pairs = case["pairs"]
        in_tree, out_tree = ast.parse(in_src), ast.parse(out_src)
        in_nodes = [resolve(in_tree, p[0].split(".")) for p in pairs]
        out_addr = [address(out_tree, p[1].split(".")) for p in pairs]
        resolvable = all(n is not None for n in in_nodes) and all(a is not None for a in out_addr)
        if resolvable and len(set(map(str, out_addr))) != len(out_addr):
            resolvable = False
        base = {"in_order": order_name(IN_ITEMS, case["oi"]), "out_order": order_name(OUT_ITEMS, case["oo"]),
                "pairs": ";".join("%s->%s" % tuple(p) for p in pairs), "wrap": case["wrap"], "eval": case["eval"],
                "via": case["via"], "resolvable": resolvable}
        if case.get("chained"):
            base["chained"] = True
        wrap = WRAP if case["wrap"] else None
        exc = None
        with boot.quiet():
            try:
                if case["via"] == "api":
                    sync_properties(input_eval=case["eval"], input_filename=fin, input_params=[p[0] for p in pairs],
                                    output_filename=fout, output_params=[p[1] for p in pairs], output_param_wrap=wrap)
                else:
                    from doctrans.__main__ import main

                    argv = ["sync_properties", "--input-filename", fin, "--output-filename", fout]
                    for p in pairs:
                        argv += ["--input-param", p[0], "--output-param", p[1]]
                    if case["eval"]:
                        argv.append("--input-eval")
                    if wrap:
                        argv += ["--output-param-wrap", wrap]
                    main(argv)
            except BaseException as e:  # SystemExit included
                if isinstance(e, (KeyboardInterrupt,)):
                    raise
                exc = e
        sites = []
        with open(fin) as f:
            in_after = f.read()
        with open(fout) as f:
            out_after = f.read()
        sites.append(site(in_after == in_src, dict(base, field="input_untouched"), fail="input_file_modified"))
        if not resolvable:
            sites.append(site(exc is not None, dict(base, field="unresolvable_reported"), fail="no_error_for_unresolvable_address"))
            sites.append(site(out_after == out_src, dict(base, field="unresolvable_output_untouched"),
                              fail="output_changed_despite_unresolvable_address",
                              exc=type(exc).__name__ if exc else None))
            return sites, None, [base["pairs"], type(exc).__name__ if exc else "ok"]
        if exc is not None:
            sites.append(site(False, dict(base, field="call"), fail="raise", **core.exc_obs(exc)))
            sites.append(site(out_after == out_src, dict(base, field="failed_call_output_untouched"), fail="output_changed_by_failed_call"))
            return sites, core.jkey(case), [base["pairs"], "raise"]
        sites.append(site(True, dict(base, field="call")))
        try:
            after_tree = ast.parse(out_after)
        except SyntaxError as e:
            sites.append(site(False, dict(base, field="output_parses"), fail="syntax_error", msg=core.short(str(e), 60)))
            return sites, core.jkey(case), [base["pairs"], "syntax"]
        sites.append(site(True, dict(base, field="output_parses")))
        # masked comparison
        try:
            m_before = ast.dump(mask(ast.parse(out_src), out_addr))
            m_after = ast.dump(mask(after_tree_copy(out_after), out_addr))
            same = m_before == m_after
        except (IndexError, AttributeError):
            same = False
        sites.append(site(same, dict(base, field="rest_of_output_unchanged"), fail="other_nodes_changed"))
        # addressed nodes carry the input's annotation
        for k, (p, inn, addr) in enumerate(zip(pairs, in_nodes, out_addr)):
            f = dict(base, field="addressed_annotation", pair="%s->%s" % tuple(p), in_kind=type(inn).__name__, out_slot=addr[-1][0])
            try:
                got = node_at(after_tree, addr)
            except (IndexError, AttributeError):
                sites.append(site(False, f, fail="addressed_node_missing"))
                continue
            if case["eval"]:
                vals = {"VALS": ("a", "b", tag), "NUMS": (1, 2, num), "DUPS": ("x", tag, "x"), "MIXED": (0, False, 1, True, num)}[p[0]]
                lit = "Literal[%s]" % ", ".join(repr(v) for v in vals)
                want = ast.dump(ast.parse(wrap.format(output_param=lit) if wrap else lit, mode="eval").body)
            else:
                ann = annotation_of(inn)
                if ann is None:
                    want = None
                elif wrap:
                    want = ast.dump(ast.parse(wrap.format(output_param=ast.unparse(ann)), mode="eval").body)
                else:
                    want = ast.dump(ann)
            gann = annotation_of(got)
            gd = ast.dump(gann) if gann is not None else None
            sites.append(site(gd == want, f, fail="annotation", got=core.short(ast.unparse(gann), 50) if gann is not None else None))
        return sites, core.jkey(case), [base["pairs"], out_after]


def after_tree_copy(src):
    return ast.parse(src)


CHECK = C14
