"""
C15 - dotted locations address exactly one node, the right one.

Programs (E1): every ordered selection of <= 3 (thorough: <= 4) distinct items from 11 item templates whose
simple names collide across scopes (incl. locals and nested defs inside a coroutine, a method and a function);
every path of length <= 3 over the 15-name pool.  Oracle: an independent
resolver written directly over ``ast`` (exact qualified path or nothing).  Checked: find_in_ast returns that
very node (identity) or None; RewriteAtQuery with a marker node replaces exactly that node, once.
"""
import ast
import copy
import itertools

from mc import core
from mc.core import site

ITEMS = [
    ("import", "import os\n"),
    ("X", "X = 1\n"),
    ("Y", "Y: int = 1\n"),
    ("g", "def g(a, b=2):\n    return a\n"),
    ("h", "def h(a: int, *, k=1):\n    return a\n"),
    ("A", "class A(object):\n    attr: int = 3\n\n    def m(self, a, b=2):\n        return a\n"),
    ("B", "class B(object):\n    attr: str = 's'\n\n    def m(self, a: int, *, k=1):\n        return a\n\n    class A(object):\n        z: int = 0\n\n        def m(self, a):\n            return a\n"),
    ("a", "def a(m):\n    return m\n"),
    # locals and nested definitions inside function bodies whose names collide with module-level / class-level ones
    ("fetch", "async def fetch(a, X: int = 0):\n    Y: int = 5\n\n    def g(b):\n        return b\n    return a\n"),
    ("R", "class R(object):\n    def A(self, a):\n        attr: int = 9\n        z: int = 8\n        return a\n"),
    ("outer", "def outer(k):\n    def g(m):\n        b: int = 4\n        return m\n    return g\n"),
]
NAMES = ["X", "Y", "g", "h", "A", "B", "a", "b", "k", "m", "attr", "z", "fetch", "R", "outer"]


def all_paths():
    out = []
    for L in (1, 2, 3):
        out += [list(t) for t in itertools.product(NAMES, repeat=L)]
    return out


PATHS = all_paths()


def modules(max_items):
    out = []
    for n in range(1, max_items + 1):
        for perm in itertools.permutations(range(len(ITEMS)), n):
            out.append(list(perm))
    return out


# ----------------------------------------------------------------------------- independent resolver
def children_named(body, name):
    """Nodes directly in ``body`` that define ``name`` (def / class / assignment targets)."""
    for n in body:
        if isinstance(n, (ast.FunctionDef, ast.AsyncFunctionDef, ast.ClassDef)) and n.name == name:
            yield n
        elif isinstance(n, ast.AnnAssign) and isinstance(n.target, ast.Name) and n.target.id == name:
            yield n
        elif isinstance(n, ast.Assign) and any(isinstance(t, ast.Name) and t.id == name for t in n.targets):
            yield n


def resolve(tree, path):
    """Exact qualified path -> node or None (first definition wins, as Python's own lookup of a name would
    see the *last*, but our modules never define the same qualified name twice)."""
    scope = tree
    for i, seg in enumerate(path):
        last = i == len(path) - 1
        if isinstance(scope, (ast.Module, ast.Interactive, ast.ClassDef)):
            found = next(children_named(scope.body, seg), None)
        elif isinstance(scope, (ast.FunctionDef, ast.AsyncFunctionDef)):
            args = scope.args
            found = next((a for a in args.posonlyargs + args.args + args.kwonlyargs if a.arg == seg), None)
            if found is None and args.kwarg is not None and args.kwarg.arg == seg:
                found = args.kwarg
        else:
            found = None
        if found is None:
            return None
        scope = found
    return scope


def node_id(n):
    if n is None:
        return None
    return "%s@%s:%s" % (type(n).__name__, getattr(n, "lineno", "?"), getattr(n, "col_offset", "?"))


class _Space(core.Space):
    def __init__(self, mods):
        self.mods = mods

    def __len__(self):
        return len(self.mods)

    def __getitem__(self, i):
        return {"items": self.mods[i]}

    def describe(self):
        return {"modules": len(self.mods), "paths_per_module": len(PATHS), "item_templates": [n for n, _ in ITEMS]}


def marker_for(node):
    if isinstance(node, ast.arg):
        return ast.arg(arg="MARK", annotation=None, type_comment=None)
    if isinstance(node, (ast.AnnAssign, ast.Assign)):
        return ast.AnnAssign(target=ast.Name("MARK", ast.Store()), annotation=ast.Name("int", ast.Load()),
                             value=ast.Constant(0), simple=1)
    if isinstance(node, ast.ClassDef):
        return ast.parse("class MARK(object):\n    pass\n").body[0]
    return ast.parse("def MARK():\n    pass\n").body[0]


class _Replace(ast.NodeTransformer):
    def __init__(self, target, new):
        self.target, self.new = target, new

    def visit(self, node):
        if node is self.target:
            return self.new
        return self.generic_visit(node)


def describe_path(tree, path):
    """Input-side facts about a path that do not need the answer: which kinds the prefix resolves to."""
    kinds = []
    scope = tree
    for i in range(len(path)):
        n = resolve(tree, path[: i + 1])
        kinds.append(type(n).__name__ if n is not None else "-")
    return "/".join(kinds)


class C15(core.Check):
    id = "C15"
    level = "exploration"
    rule = ("every module built from an ordered selection of distinct item templates (<=3 quick, <=4 thorough) x every path of "
            "length <=3 over 15 colliding names is resolved by find_in_ast on the tree returned by ast_parse and compared by "
            "node identity with an independent resolver; for every path that exists RewriteAtQuery replaces a marker and the "
            "result is compared with an independent replacement; non-trivial = the path resolves to a node; distinct = "
            "distinct (module, path)")
    assumptions = ("no module defines the same qualified name twice", "a location addresses a def / class / assignment by "
                   "name in a module or class body and an argument (positional, keyword-only, **kwargs) by name in a function")

    def space(self):
        return _Space(modules(4 if self.tier == "thorough" else 3))

    def run_case(self, case):
        from doctrans.ast_utils import RewriteAtQuery, find_in_ast
        from doctrans.source_transformer import ast_parse

        src = "\n".join(ITEMS[i][1] for i in case["items"])
        order = ">".join(ITEMS[i][0] for i in case["items"])
        tree = ast_parse(src)
        sites = []
        existing = []
        for path in PATHS:
            want = resolve(tree, path)
            if want is not None:
                existing.append(path)
            # facts: the path, what precedes the first segment's definition, kinds along the path
            first = path[0]
            idx_first = next((k for k, i in enumerate(case["items"]) if ITEMS[i][0] == first), None)
            before = ">".join(ITEMS[i][0] for i in case["items"][:idx_first]) if idx_first is not None else "-"
            facts = {"op": "find", "path": ".".join(path), "kinds": describe_path(tree, path), "before": before,
                     "exists": want is not None}
            try:
                got = find_in_ast(list(path), tree)
            except Exception as e:
                sites.append(site(False, facts, fail="raise", **core.exc_obs(e)))
                continue
            ok = got is want
            sites.append(site(ok, facts, fail="wrong_node" if got is not None else "not_found",
                              got=node_id(got), want=node_id(want)))
        # locations as the callers spell them: a dotted string split by pure_utils.strip_split (sync_properties, conformance).
        # A trailing, leading or doubled dot yields an empty segment and therefore names no node; blanks around a dot are trimmed.
        from doctrans.pure_utils import strip_split

        for path in existing:
            dotted = ".".join(path)
            for spelled, label in ((dotted + ".", "trailing_dot"), ("." + dotted, "leading_dot"), (dotted.replace(".", "..", 1), "doubled_dot"),
                                   (" " + dotted.replace(".", " . ") + " ", "blanks")):
                if label == "doubled_dot" and len(path) == 1:
                    continue
                indep = [seg.strip() for seg in spelled.split(".")]
                want = resolve(tree, indep)
                facts = {"op": "find_spelled", "spelling": label, "path": dotted, "kinds": describe_path(tree, path), "exists": want is not None}
                try:
                    got = find_in_ast(list(strip_split(spelled, ".")), tree)
                except Exception as e:
                    sites.append(site(False, facts, fail="raise", **core.exc_obs(e)))
                    continue
                sites.append(site(got is want, facts, fail="wrong_node" if got is not None else "not_found", got=node_id(got), want=node_id(want)))
        # the less common call form: a single compound statement parsed with mode="single" (root ast.Interactive)
        if len(case["items"]) == 1 and ITEMS[case["items"][0]][1].startswith(("class ", "def ", "async def ")):
            ti = ast_parse(src, mode="single")
            for path in PATHS:
                if path[0] != ITEMS[case["items"][0]][0]:
                    continue
                want = resolve(ti, path)
                facts = {"op": "find_single_mode", "path": ".".join(path), "kinds": describe_path(ti, path), "exists": want is not None}
                try:
                    got = find_in_ast(list(path), ti)
                except Exception as e:
                    sites.append(site(False, facts, fail="raise", **core.exc_obs(e)))
                    continue
                sites.append(site(got is want, facts, fail="wrong_node" if got is not None else "not_found", got=node_id(got), want=node_id(want)))
            for path in existing:
                t1 = ast_parse(src, mode="single")
                want = resolve(t1, path)
                facts = {"op": "replace_single_mode", "path": ".".join(path), "kind": type(want).__name__}
                rq = RewriteAtQuery(search=list(path), replacement_node=marker_for(want))
                try:
                    out = rq.visit(t1)
                    sites.append(site(rq.replaced and ast.dump(out).count("MARK") >= 1, facts, fail="not_replaced", replaced_flag=rq.replaced))
                except Exception as e:
                    sites.append(site(False, facts, fail="raise", **core.exc_obs(e)))
        # replacement at every existing location (fresh tree each time)
        for path in existing:
            t1 = ast_parse(src)
            want = resolve(t1, path)
            first = path[0]
            idx_first = next((k for k, i in enumerate(case["items"]) if ITEMS[i][0] == first), None)
            before = ">".join(ITEMS[i][0] for i in case["items"][:idx_first]) if idx_first is not None else "-"
            after = ">".join(ITEMS[i][0] for i in case["items"][idx_first + 1:]) if idx_first is not None else "-"
            facts = {"op": "replace", "path": ".".join(path), "kind": type(want).__name__, "before": before, "after": after}
            t2 = copy.deepcopy(t1)
            want2 = resolve(t2, path)
            expected = ast.dump(_Replace(want2, marker_for(want2)).visit(t2))
            rq = RewriteAtQuery(search=list(path), replacement_node=marker_for(want))
            try:
                out = rq.visit(t1)
                got = ast.dump(out)
            except Exception as e:
                sites.append(site(False, facts, fail="raise", **core.exc_obs(e)))
                continue
            if got == expected and rq.replaced:
                sites.append(site(True, facts))
            else:
                unchanged = got == ast.dump(ast_parse(src))
                sites.append(site(False, facts, fail="not_replaced" if unchanged else "wrong_replacement",
                                  replaced_flag=rq.replaced, marks=got.count("MARK")))
        # multi-step: replace a whole class by a fresh (un-annotated) one, re-annotate, then address inside the new class
        from doctrans.ast_utils import annotate_ancestry

        for cname in ("A", "B"):
            t1 = ast_parse(src)
            if resolve(t1, [cname]) is None or not isinstance(resolve(t1, [cname]), ast.ClassDef):
                continue
            first = cname
            idx_first = next((k for k, i in enumerate(case["items"]) if ITEMS[i][0] == first), None)
            before = ">".join(ITEMS[i][0] for i in case["items"][:idx_first]) if idx_first is not None else "-"
            facts = {"op": "replace_reannotate_replace", "path": cname, "before": before}
            new_cls = ast.parse("class NEWC(object):\n    attr2: int = 1\n\n    def m2(self, a, b=2):\n        return a\n").body[0]
            try:
                rq = RewriteAtQuery(search=[cname], replacement_node=new_cls)
                t1 = rq.visit(t1)
                annotate_ancestry(t1)
                want = resolve(t1, ["NEWC", "attr2"])
                got = find_in_ast(["NEWC", "attr2"], t1)
                rq2 = RewriteAtQuery(search=["NEWC", "attr2"], replacement_node=marker_for(want))
                out = ast.dump(rq2.visit(t1))
                ok = rq.replaced and want is not None and got is want and rq2.replaced and out.count("MARK") == 1
                sites.append(site(ok, facts, fail="multi_step", first_replaced=rq.replaced, found=got is want, second_replaced=rq2.replaced))
            except Exception as e:
                sites.append(site(False, facts, fail="raise", **core.exc_obs(e)))
        return (sites, [order], [order, [s["ok"] for s in sites]],
                {"lookups": len(PATHS), "existing_paths": len(existing), "nt_pairs": [order + "|" + ".".join(p) for p in existing]})

    def execute(self, pool):
        agg, extra = super().execute(pool)
        agg.nontrivial = set(agg.sets.pop("nt_pairs", set()))  # measured: (module, path) pairs that resolve to a node
        return agg, extra


CHECK = C15
