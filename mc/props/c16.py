"""
C16 - implementation bodies are carried through conversions verbatim.

Programs (E1): bodies = every sequence of <= 3 distinct statements from 11 templates (assignment using parameters, call
with a keyword argument named like a parameter, for loop, conditional with early return, nested def, comprehension,
leading string expression) x final statement {none, return name, return expression} x 4 interfaces x routes
{function -> function, method -> method, argparse -> argparse with extra statements, function -> class __call__}.
Oracle: ast.dump of the statement list before == after (order, multiplicity, final return once); for __call__ an
independent rewriter that turns exactly the references to parameters into ``self.<name>``.
"""
import ast
import copy
import itertools

from mc import core
from mc.core import site

STMTS = [
    ("assign", "total = a + b"),
    ("call_kw", "print(helper(a=a, flag=b))"),
    ("for", "for i in range(3):\n    count = i"),
    ("if_return", "if a:\n    return b"),
    ("nested_def", "def inner(x):\n    return x + a"),
    ("comprehension", "squares = [v * b for v in range(3)]"),
    ("string_expr", "'a free-standing string expression'"),
    # a local that is called like the IR's reserved key for the return entry
    ("local_return_type", "return_type = type(a)"),
    # the argparse description assigned from a name (not the literal interface description)
    ("description_from_name", "argument_parser.description = SUMMARY"),
    # a chained assignment whose first target is the description: an implementation statement, it also binds ``banner``
    ("description_chained", "argument_parser.description = banner = 'text'"),
    # the result of add_argument is kept in a name that later statements may use
    ("assigned_add_argument", "extra_action = argument_parser.add_argument('--extra', help='an extra')"),
]
FINALS = [("none", None), ("return_name", "return a"), ("return_expr", "return a + b * 2"), ("return_zero", "return 0")]
INTERFACES = [
    ("plain", "a, b=2", ":param a: the a\n:param b: the b", None),
    ("annotated+returns", "a: int, b: str = 'x'", ":param a: the a\n:param b: the b\n:returns: the result", "int"),
    ("nodoc", "a, b=2", None, None),
    ("kwargs", "a, b=2, **kwargs", ":param a: the a\n:param b: the b\n:param kwargs: extra", None),
    ("noparams", "", None, None),
    ("returns_default_clause", "a, b=2", ":param a: the a\n:param b: the b\n:returns: the result. Defaults to a + 1", None),
]
ROUTES = ("function", "method", "argparse", "argparse_interleaved", "call", "class_call_to_method")


def bodies(maxlen):
    out = [()]
    for L in range(1, maxlen + 1):
        out += list(itertools.permutations(range(len(STMTS)), L))
    return out


def indent(text, n):
    pad = " " * n
    return "\n".join(pad + ln if ln else ln for ln in text.splitlines())


def build_source(route, iface, body_idx, final):
    name, sig, doc, ret = INTERFACES[iface]
    stmts = [STMTS[i][1] for i in body_idx]
    fin = FINALS[final][1]
    if route in ("argparse", "argparse_interleaved"):
        tup = final in (2, 3)
        lines = ['"""', "Set CLI arguments", "", ":param argument_parser: argument parser", ":type argument_parser: ```ArgumentParser```", "",
                 ":returns: argument_parser, the result" if tup else ":returns: argument_parser",
                 (":rtype: ```Tuple[ArgumentParser, int, str]```" if final == 3 else ":rtype: ```Tuple[ArgumentParser, int]```") if tup
                 else ":rtype: ```ArgumentParser```", '"""',
                 "argument_parser.description = 'Summary'",
                 "argument_parser.add_argument('--a', type=int, help='the a', required=True)"]
        if route == "argparse_interleaved" and stmts:
            # the first extra statement stands between the interface statements
            lines.append(stmts[0])
            stmts = stmts[1:]
        lines.append("argument_parser.add_argument('--b', help='the b', required=True, default='x')")
        lines += stmts
        # final 3: more than one value is handed back besides the parser
        lines.append({2: "return argument_parser, 5", 3: "return argument_parser, 5, 'x'"}.get(final, "return argument_parser"))
        return "def set_cli_args(argument_parser):\n" + indent("\n".join(lines), 4) + "\n"
    body = []
    if doc is not None:
        body.append('"""\nSummary\n\n%s\n"""' % doc)
    body += stmts
    if fin:
        body.append(fin)
    if not body:
        body = ["pass"]
    if route == "class_call_to_method":
        # a class whose __call__ carries the body; merged into the class IR and emitted back as the method
        cdoc = '"""\nSummary\n\n:cvar a: the a\n:cvar b: the b\n"""'
        mbody = stmts + ([fin] if fin else [])
        if not mbody:
            mbody = ["pass"]
        msrc = "def __call__(self):\n" + indent('"""call doc"""\n' + "\n".join(mbody), 4)
        return "class K(object):\n" + indent(cdoc + "\na: int = 1\nb: int = 2\n\n" + msrc, 4) + "\n"
    first = "self, " if route == "method" else ""
    head = "def f(%s%s)%s:" % (first, sig, (" -> %s" % ret) if ret else "")
    src = head + "\n" + indent("\n".join(body), 4) + "\n"
    if route == "method":
        src = "class K(object):\n" + indent(src, 4) + "\n"
    return src


def non_doc_body(fd):
    body = list(fd.body)
    if ast.get_docstring(fd) is not None:
        body = body[1:]
    return body


class _SelfRewriter(ast.NodeTransformer):
    """Independent reference: references to the given names become self.<name>; nothing else is touched.
    A nested function / lambda / comprehension that rebinds a name shadows it inside its own scope."""

    def __init__(self, names):
        self.names = set(names)

    def visit_Name(self, node):
        if node.id in self.names:
            return ast.copy_location(ast.Attribute(ast.Name("self", ast.Load()), node.id, ast.Load()), node)
        return node

    def _scoped(self, node, bound):
        saved = self.names
        self.names = self.names - set(bound)
        try:
            return self.generic_visit(node)
        finally:
            self.names = saved

    def visit_FunctionDef(self, node):
        a = node.args
        bound = [x.arg for x in a.posonlyargs + a.args + a.kwonlyargs] + ([a.vararg.arg] if a.vararg else []) + ([a.kwarg.arg] if a.kwarg else [])
        return self._scoped(node, bound)

    def visit_Lambda(self, node):
        return self.visit_FunctionDef(node)


def dumps(stmts):
    return [ast.dump(s) for s in stmts]


class _Space(core.Space):
    def __init__(self, cases):
        self.cases = cases

    def __len__(self):
        return len(self.cases)

    def __getitem__(self, i):
        return self.cases[i]

    def describe(self):
        return {"programs": len(self.cases), "statement_templates": [n for n, _ in STMTS], "routes": list(ROUTES)}


class C16(core.Check):
    id = "C16"
    level = "exploration"
    rule = ("every generated body (all sequences of <=3 distinct statements from 7 templates x 4 final statements; quick: <=2) on "
            "each of 5 interfaces is carried through each route with the real parse / emit functions and the non-docstring "
            "statements are compared by ast.dump before and after; non-trivial = at least one body statement; distinct = "
            "distinct source x route")
    assumptions = ("the leading docstring is interface, every other statement is body",
                   "__call__ reference: parameter names used as plain names are rewritten, names rebound by a nested "
                   "function's own parameters are not")

    def space(self):
        if not hasattr(self, "_cases"):
            bl = bodies(3 if self.tier == "thorough" else 2)
            self._cases = [{"route": r, "iface": i, "body": list(b), "final": f}
                           for r in ROUTES for i in range(len(INTERFACES)) for b in bl for f in range(len(FINALS))
                           if not (r in ("argparse", "argparse_interleaved", "class_call_to_method") and i > 0)
                           and not (r == "argparse_interleaved" and not b)]
        return _Space(self._cases)

    def run_case(self, case):
        from doctrans import emit, parse

        route, iface = case["route"], case["iface"]
        src = build_source(route, iface, case["body"], case["final"])
        tree = ast.parse(src)
        if route == "class_call_to_method":
            return self.run_class_call(case, src, tree)
        fd = tree.body[0] if route != "method" else tree.body[0].body[0]
        before = non_doc_body(fd)
        labels = [STMTS[i][0] for i in case["body"]]
        base = {"route": route, "iface": INTERFACES[iface][0] if not route.startswith("argparse") else "argparse", "body": ">".join(labels) or "-",
                "final": FINALS[case["final"]][0], "first": labels[0] if labels else "-", "n": len(labels)}
        if route.startswith("argparse"):
            before = [s for s in before if not _is_argparse_plumbing(s)]
        try:
            if route in ("function", "method"):
                ir = parse.function(copy.deepcopy(fd))
                out = emit.function(ir, function_name=None, function_type=None)
                after = non_doc_body(ast.parse(ast.unparse(out)).body[0])
            elif route.startswith("argparse"):
                ir = parse.argparse_ast(copy.deepcopy(fd), function_name="set_cli_args")
                out = emit.argparse_function(ir, function_name="set_cli_args")
                after_all = non_doc_body(ast.parse(ast.unparse(out)).body[0])
                after = [s for s in after_all if not _is_argparse_plumbing(s)]
                n_add = (sum(1 for s in non_doc_body(fd) if _is_add_argument(s)), sum(1 for s in after_all if _is_add_argument(s)))
            else:
                ir = parse.function(copy.deepcopy(fd))
                out = emit.class_(ir, emit_call=True)
                cls = ast.parse(ast.unparse(out)).body[0]
                call = next((n for n in cls.body if isinstance(n, ast.FunctionDef) and n.name == "__call__"), None)
                if call is None:
                    ok = not before
                    return [site(ok, dict(base, field="call_method_present"), fail="no___call___emitted")], (src, route) if labels else None, [src, "nocall"]
                after = non_doc_body(call)
                params = [a.arg for a in fd.args.args + fd.args.kwonlyargs if a.arg not in ("self", "cls")]
                ref = [_SelfRewriter(params).visit(copy.deepcopy(s)) for s in before]
                before = [ast.parse(ast.unparse(s)).body[0] for s in ref]
        except Exception as e:
            return [site(False, dict(base, field="convert"), fail="raise", **core.exc_obs(e))], (src, route) if labels else None, [src, "raise"]
        b, a = dumps(before), dumps(after)
        if (INTERFACES[iface][0] == "returns_default_clause" and case["final"] == 0 and not route.startswith("argparse") and len(a) == len(b) + 1
                and a[:-1] == b and isinstance(after[-1], ast.Return)):
            # a documented returned default whose body has no final return of its own is emitted as one more return
            # statement by design; every statement of the body itself must still be there, in order
            a = a[:-1]
        sites = [site(True, dict(base, field="convert"))]
        if route.startswith("argparse"):
            # the interface statements themselves are regenerated: each option is registered exactly once
            sites.append(site(n_add[0] == n_add[1], dict(base, field="options_registered_once"), fail="add_argument_count",
                              n_before=n_add[0], n_after=n_add[1]))
        if b == a:
            sites.append(site(True, dict(base, field="body")))
        else:
            sb, sa = set(b), set(a)
            if sorted(b) == sorted(a):
                kind = "reordered"
            elif len(a) > len(b) and sb <= sa:
                kind = "statements_added_or_duplicated"
            elif len(a) < len(b) and sa <= sb:
                kind = "statements_dropped"
            else:
                kind = "statements_changed"
            dropped = [i for i, s in enumerate(b) if s not in sa]
            sites.append(site(False, dict(base, field="body"), fail=kind, n_before=len(b), n_after=len(a), first_dropped=dropped[:1]))
        return sites, ((src, route) if labels else None), [src, route, a]


def _run_class_call(self, case, src, tree):
    from doctrans import emit, parse

    labels = [STMTS[i][0] for i in case["body"]]
    base = {"route": "class_call_to_method", "iface": "class", "body": ">".join(labels) or "-", "final": FINALS[case["final"]][0],
            "first": labels[0] if labels else "-", "n": len(labels)}
    cls = tree.body[0]
    call = next(n for n in cls.body if isinstance(n, ast.FunctionDef))
    before = non_doc_body(call)
    try:
        ir = parse.class_(copy.deepcopy(cls), merge_inner_function="__call__")
        out = emit.function(ir, function_name="__call__", function_type="self")
        after = non_doc_body(ast.parse(ast.unparse(out)).body[0])
    except Exception as e:
        return [site(False, dict(base, field="convert"), fail="raise", **core.exc_obs(e))], (src, "ccm") if labels else None, [src, "raise"]
    b, a = dumps(before), dumps(after)
    if b == ["Pass()"]:
        b = [] if a == [] else b
    sites = [site(True, dict(base, field="convert"))]
    if b == a:
        sites.append(site(True, dict(base, field="body")))
    else:
        kind = "statements_dropped" if len(a) < len(b) else ("statements_added_or_duplicated" if len(a) > len(b) else "statements_changed")
        sites.append(site(False, dict(base, field="body"), fail=kind, n_before=len(b), n_after=len(a)))
    return sites, ((src, "ccm") if labels else None), [src, "ccm", a]


C16.run_class_call = _run_class_call


def _is_add_argument(s):
    return isinstance(s, ast.Expr) and isinstance(s.value, ast.Call) and getattr(s.value.func, "attr", None) == "add_argument"


def _is_argparse_plumbing(s):
    if isinstance(s, ast.Assign) and isinstance(s.targets[0], ast.Attribute) and s.targets[0].attr == "description":
        return True
    if isinstance(s, ast.Expr) and isinstance(s.value, ast.Call) and getattr(s.value.func, "attr", None) == "add_argument":
        return True
    return False


CHECK = C16
