"""
C17 - default values survive the trip through prose with value and type intact.

Enumerated (E1, exhaustive): prose template x value x declared type {absent, matching} x
announcement phrase (the writer's own "Defaults to " plus the four recognised phrases written
by hand) x removal {off, on}; plus the "no announcement" sub-space (prose that merely contains
the word default) through extract_default and set_default_doc.

Observation points: doctrans.defaults_utils.set_default_doc (writer), extract_default (reader,
both removal modes) and doctrans.emitter_utils.interpolate_defaults (reader as used by parsers).
"""
import itertools
import re

from mc import core
from mc.core import site

NONE_STR = "```(None)```"

PROSE = [
    "the a",
    "the a.",
    "uses 3.5 units, e.g. `x`",
    "the default behaviour of a",
    "first sentence. second (see notes) sentence",
    "one, two, and three,",
    "rate is 0.5",
    "see `np.foo` for details",
    "sensible defaults apply",
    "Default handling is described elsewhere.",
    "x",
]

PHRASES = ["<writer>", "defaults to ", "defaults to\n", "Default value is ", "Default: "]

QUICK_VALUES = [
    # (python value, matching declared type)
    (5, "int"), (0, "int"), (-3, "int"), (10, "int"), (-20, "int"),
    (0.5, "float"), (-1.5, "float"), (2.0, "float"), (1e-07, "float"), (0.0, "float"), (100.25, "float"),
    (True, "bool"), (False, "bool"),
    (NONE_STR, "Optional[int]"),
    ("foo", "str"), ("two words", "str"), ("3", "str"), ("a.b", "str"), ("", "str"), ("it's", "str"),
    ("-", "str"), ("mnist", "str"), ('say "hi" now', "str"), ('say "hi" now', "Optional[str]"), ('a"b', "Union[str, int]"),
    ("it's", "Optional[str]"), ("two words", "Optional[str]"), ("e.g. this", "str"), ("~/tensorflow_datasets", "str"),
    # literal-looking strings under compound types that admit str only as one alternative / element
    ("5", "Union[str, int]"), ("-3", "Optional[Union[str, float]]"), ("True", "Union[str, int]"), ("1e3", "List[str]"),
    ("0.5", "Optional[Literal['0.5', 'x']]"),
    ("```np.empty(0)```", None), ("```['x', 'y']```", None), ("```[]```", None), ("```(1, 'x')```", None),
    ("```foo(1.5)```", None), ("```{'k': 1}```", None), ("(np.empty(0), np.empty(0))", None),
]


# (text as a user would write it, declared type, value a typed reader must produce)
RAW = [("5", "float", 5.0), ("-2", "float", -2.0), ("5", "str", "5"), ("0", "bool", False), ("1", "bool", True), ("7", "int", 7),
       ("2.0", "float", 2.0), ("True", "bool", True), ("1e-07", "float", 1e-07), ("0", "float", 0.0), ("0", "int", 0), ("0", "str", "0")]


def thorough_values():
    vals = list(QUICK_VALUES)
    seen = set((repr(v), t) for v, t in vals)
    for i in range(-20, 21):
        vals.append((i, "int"))
    for f in (0.001, 0.9, 0.999, 1.0, -0.0, 3.14159, 1e10, 1.5e-05, -2.5, 12.0, 1e-7, 123456.789, 5e-324, 0.1):
        vals.append((f, "float"))
    alpha = "a1.-'() "
    for n in (1, 2, 3):
        for tup in itertools.product(alpha, repeat=n):
            vals.append(("".join(tup), "str"))
    out = []
    seen = set()
    for v, t in vals:
        k = (repr(v), t)
        if k not in seen:
            seen.add(k)
            out.append((v, t))
    return out


_num_like = re.compile(r"^\s*[-+]?(\d+\.?\d*([eE][-+]?\d+)?|\.\d+([eE][-+]?\d+)?|inf|nan|infinity)\s*$", re.I)


def looks_literal(s):
    """Would an *untyped* occurrence of this text be read as number / bool / None by any sane reader?"""
    st = s.strip(" \t`")
    if st in ("True", "False", "None", "(None)", ""):
        return True
    if _num_like.match(st.replace("_", "")):
        return True
    try:
        float(st)
        return True
    except ValueError:
        return False


def balanced(s):
    st = []
    pairs = {")": "(", "]": "[", "}": "{"}
    for ch in s:
        if ch in "([{":
            st.append(ch)
        elif ch in pairs:
            if not st or st.pop() != pairs[ch]:
                return False
    return not st


def out_of_domain_ok(v, declared):
    """Is the plain string ``v`` inside the domain of the property for this declared-type mode?

    Declared str: the writer quotes the value, so every string is in the domain except one that already
    looks quoted (first and last character the same quote mark), which the quoting helper is documented to
    leave alone and therefore cannot be told apart from its unquoted form.
    Undeclared: the value is written bare; bare text is inherently ambiguous when it reads as a number /
    bool / None literal, has edge whitespace, is empty, ends with a full stop or contains a sentence end
    ('. '), starts or ends with a quote or back-tick, or has unbalanced brackets (the reader is
    bracket-aware by design).  Those are excluded; everything else must round-trip."""
    if v.startswith("(") and v.endswith(")") and balanced(v) and len(v) > 2 and not declared:
        return True  # parenthesised expression text, e.g. "(np.empty(0), np.empty(0))"
    if len(v) >= 1 and v[0] == v[-1] and v[0] in "'\"":
        return False
    if declared:
        return True
    if v == "" or v != v.strip() or looks_literal(v):
        return False
    if v.endswith(".") or ". " in v or ".\n" in v:
        return False
    if v[0] in "'\"`" or v[-1] in "'\"`":
        return False
    if not balanced(v):
        return False
    return True


def value_facts(v, declared):
    f = {}
    if isinstance(v, bool):
        f["val.kind"] = "bool"
    elif isinstance(v, int):
        f["val.kind"] = "int<0" if v < 0 else ("int0" if v == 0 else "int>0")
    elif isinstance(v, float):
        f["val.kind"] = "float"
        r = repr(v)
        f["val.float_form"] = ("exp" if "e" in r else "dec") + ("-" if r.startswith("-") else "")
    elif v == NONE_STR:
        f["val.kind"] = "none"
    elif isinstance(v, str) and v.startswith("```"):
        f["val.kind"] = "code"
        f["val.has_dot"] = "." in v
        f["val.open"] = v[3] if v[3] in "([{" else "name"
    else:
        f["val.kind"] = "str"
        f["val.empty"] = v == ""
        f["val.has_dot"] = "." in v
        f["val.dot_then_digit"] = bool(re.search(r"\.\d", v))
        f["val.ends_dot"] = v.endswith(".")
        f["val.has_dot_space"] = ". " in v
        f["val.has_quote"] = "'" in v or '"' in v
        f["val.paren"] = ("(" in v) * "(" + (")" in v) * ")"
        f["val.edge_space"] = v != v.strip()
        f["val.edge_paren"] = (v.startswith("(")) * "(" + (v.endswith(")")) * ")"
        f["val.literal_like"] = looks_literal(v) if v else False
        f["val.has_backtick_edge"] = v.strip() != v.strip(" \t`")
    f["typ"] = "declared" if declared else "absent"
    return f


def prose_facts(p):
    return {
        "prose.ends": p[-1] if p[-1] in ".," else "other",
        "prose.inner_stop": "." in p[:-1],
        "prose.has_word_defaults": "defaults" in p.lower(),
        "prose.has_word_default": "default" in p.lower(),
    }


def wsn(s):
    return " ".join(s.split())


class C17(core.Check):
    id = "C17"
    level = "exploration"
    rule = ("all (prose, value, declared-type, phrase, removal) tuples over the stated alphabets are run through "
            "set_default_doc -> extract_default / interpolate_defaults; a case is non-trivial when the written "
            "text contains an announcement and a value (distinct = distinct written text x mode)")
    assumptions = ("untyped strings that read as number/bool/None literals are outside the domain (ambiguous by "
                   "construction)", "prose acceptance: original prose, optionally with a full stop appended")

    def space(self):
        vals = thorough_values() if self.tier == "thorough" else QUICK_VALUES
        cases = []
        for pi, vi, declared, ph, rm in itertools.product(range(len(PROSE)), range(len(vals)), (False, True),
                                                          range(len(PHRASES)), (False, True)):
            v, t = vals[vi]
            if declared and t is None:
                continue
            if isinstance(v, str) and not v.startswith("```") and v != NONE_STR and not out_of_domain_ok(v, declared):
                continue
            cases.append({"k": "rt", "prose": PROSE[pi], "value": v, "typ": t if declared else None,
                          "phrase": PHRASES[ph], "remove": rm})
        for p in PROSE + ["by default nothing happens", "DEFAULTS are documented in the README", "default",
                          "the default: see below" if False else "uses the default backend"]:
            for rm in (False, True):
                cases.append({"k": "plain", "prose": p, "remove": rm})
        # hand-written default text whose reading depends on the declared type ("Defaults to 5" under float is 5.0)
        for p in PROSE[:4]:
            for raw, typ, want in RAW:
                for ph in range(len(PHRASES)):
                    for rm in (False, True):
                        cases.append({"k": "raw", "prose": p, "raw": raw, "typ": typ, "want": want, "phrase": PHRASES[ph], "remove": rm})
        # announcement phrases of the caller's own (default_search_announce given as one string or as several)
        for p in PROSE[:5]:
            for v, t in ((5, "int"), (-3, "int"), (0.25, "float"), (True, "bool"), ("mnist", "str"), ("two words", "str")):
                for ph, ann in (("Default is ", "Default is "), ("By default ", ("Initially ", "By default ")),
                                ("defaults to ", ("Default is ", "defaults to ")), ("Initially ", ["Initially "])):
                    for declared in (False, True):
                        for rm in (False, True):
                            cases.append({"k": "custom", "prose": p, "value": v, "typ": t if declared else None, "phrase": ph,
                                          "announce": ann, "remove": rm})
        return core.Listed(cases, note="prose x value x typ x phrase x removal + plain prose + hand-written value text x declared type")

    # ------------------------------------------------------------------ oracle pieces
    @staticmethod
    def value_ok(v, got, exact_str):
        if isinstance(v, bool) or isinstance(v, (int, float)):
            return type(got) is type(v) and (got == v) and (repr(got) == repr(v) or got == v)
        if v == NONE_STR:
            return got is None or got in ("None", NONE_STR, "(None)")
        if v.startswith("```"):
            return isinstance(got, str) and got.strip("`") == v.strip("`")
        if exact_str:
            return type(got) is str and got == v
        return type(got) is str and got in (v, '"%s"' % v, "'%s'" % v)

    def run_case(self, case):
        from doctrans.defaults_utils import extract_default, set_default_doc
        from doctrans.emitter_utils import interpolate_defaults

        sites = []
        if case["k"] == "plain":
            p = case["prose"]
            facts = dict(prose_facts(p), kind="plain", remove=case["remove"])
            try:
                doc, d = extract_default(p, emit_default_doc=not case["remove"])
                sites.append(site(doc == p and d is None, dict(facts, op="extract"), fail="plain_prose_altered",
                                  doc=doc, default=repr(d)))
            except Exception as e:
                sites.append(site(False, dict(facts, op="extract"), fail="raise", **core.exc_obs(e)))
            try:
                _, q = set_default_doc(("a", {"doc": p, "typ": "int"}), emit_default_doc=not case["remove"])
                sites.append(site(q.get("doc") == p and "default" not in q, dict(facts, op="set"),
                                  fail="plain_prose_altered", doc=q.get("doc")))
            except Exception as e:
                sites.append(site(False, dict(facts, op="set"), fail="raise", **core.exc_obs(e)))
            return sites, None, "plain"

        if case["k"] == "raw":
            return self.run_raw(case)
        if case["k"] == "custom":
            return self.run_custom(case)
        p, v, t, ph, rm = case["prose"], case["value"], case["typ"], case["phrase"], case["remove"]
        facts = dict(prose_facts(p), **value_facts(v, t))
        facts.update(phrase=ph.strip() or ph, remove=rm)
        param = {"doc": p, "default": v}
        if t:
            param["typ"] = t
        # --- write
        try:
            _, q = set_default_doc(("a", dict(param)), emit_default_doc=True)
            text = q["doc"]
        except Exception as e:
            return [site(False, dict(facts, op="write"), fail="raise", **core.exc_obs(e))], None, "write-raise"
        marker = " Defaults to "
        if marker not in text or not text.startswith(p):
            return [site(False, dict(facts, op="write"), fail="not_written", text=core.short(text))], None, "nw"
        sites.append(site(True, dict(facts, op="write")))
        if ph != "<writer>":
            i = text.index(marker, len(p) - 1 if len(p) else 0)
            text = text[:i] + " " + ph + text[i + len(marker):]
        accepted_prose = {wsn(p)} if p[-1] in ".," else {wsn(p), wsn(p) + "."}
        # --- read via extract_default
        try:
            doc, got = extract_default(text, typ=t, emit_default_doc=not rm)
            ok_v = self.value_ok(v, got, exact_str=False)
            sites.append(site(ok_v, dict(facts, op="extract.value"), fail="value", got=repr(got)))
            if rm:
                sites.append(site(wsn(doc) in accepted_prose, dict(facts, op="extract.prose"), fail="prose",
                                  got=core.short(doc)))
            else:
                sites.append(site(doc == text, dict(facts, op="extract.prose"), fail="text_changed", got=core.short(doc)))
        except Exception as e:
            sites.append(site(False, dict(facts, op="extract"), fail="raise", **core.exc_obs(e)))
        # --- read via interpolate_defaults (what every docstring parser uses)
        try:
            par = {"doc": text}
            if t:
                par["typ"] = t
            _, got_p = interpolate_defaults(("a", par), emit_default_doc=not rm)
            ok_v = "default" in got_p and self.value_ok(v, got_p["default"], exact_str=True)
            sites.append(site(ok_v, dict(facts, op="interp.value"), fail="value",
                              got=repr(got_p.get("default", "<absent>"))))
            if rm:
                sites.append(site(wsn(got_p["doc"]) in accepted_prose, dict(facts, op="interp.prose"), fail="prose",
                                  got=core.short(got_p["doc"])))
        except Exception as e:
            sites.append(site(False, dict(facts, op="interp"), fail="raise", **core.exc_obs(e)))
        # --- the ReST parser interpolates the same entry twice: at ':param' (type not yet known) and again at ':type'
        if t and not rm:
            try:
                shared = {"doc": text}
                interpolate_defaults(("a", shared), emit_default_doc=True)
                shared["typ"] = t
                _, got2 = interpolate_defaults(("a", shared), emit_default_doc=True)
                ok2 = "default" in got2 and self.value_ok(v, got2["default"], exact_str=True)
                sites.append(site(ok2, dict(facts, op="interp.two_pass"), fail="value", got=repr(got2.get("default", "<absent>"))))
            except Exception as e:
                sites.append(site(False, dict(facts, op="interp.two_pass"), fail="raise", **core.exc_obs(e)))
        # --- the writer applied to text that already announces the default: idempotent with default text on,
        #     and the way emitters strip the sentence with default text off
        try:
            par2 = {"doc": text, "default": v}
            if t:
                par2["typ"] = t
            _, q2 = set_default_doc(("a", dict(par2)), emit_default_doc=not rm)
            if rm:
                sites.append(site(wsn(q2["doc"]) in accepted_prose, dict(facts, op="rewrite.remove"), fail="prose", got=core.short(q2["doc"])))
            else:
                sites.append(site(q2["doc"] == text, dict(facts, op="rewrite.keep"), fail="sentence_written_twice_or_changed",
                                  got=core.short(q2["doc"])))
        except Exception as e:
            sites.append(site(False, dict(facts, op="rewrite"), fail="raise", **core.exc_obs(e)))
        return sites, [text, rm], [text, rm, [s["ok"] for s in sites]]


def _run_raw(self, case):
    from doctrans.defaults_utils import extract_default
    from doctrans.emitter_utils import interpolate_defaults

    p, raw, t, want, ph, rm = case["prose"], case["raw"], case["typ"], case["want"], case["phrase"], case["remove"]
    phrase = "Defaults to " if ph == "<writer>" else ph
    text = (p if p[-1] in ".," else p + ".") + " " + phrase + raw
    facts = dict(prose_facts(p), kind="raw", raw=raw, typ=t, phrase=ph.strip() or ph, remove=rm)
    sites = []

    def same(got):
        return type(got) is type(want) and got == want

    try:
        doc, got = extract_default(text, typ=t, emit_default_doc=not rm)
        sites.append(site(same(got), dict(facts, op="extract.value"), fail="value", got=repr(got)))
    except Exception as e:
        sites.append(site(False, dict(facts, op="extract"), fail="raise", **core.exc_obs(e)))
    try:
        _, one = interpolate_defaults(("a", {"doc": text, "typ": t}), emit_default_doc=not rm)
        sites.append(site("default" in one and same(one["default"]), dict(facts, op="interp.value"), fail="value", got=repr(one.get("default", "<absent>"))))
    except Exception as e:
        sites.append(site(False, dict(facts, op="interp"), fail="raise", **core.exc_obs(e)))
    if not rm:
        try:
            shared = {"doc": text}
            interpolate_defaults(("a", shared), emit_default_doc=True)
            shared["typ"] = t
            _, two = interpolate_defaults(("a", shared), emit_default_doc=True)
            sites.append(site("default" in two and same(two["default"]), dict(facts, op="interp.two_pass"), fail="value",
                              got=repr(two.get("default", "<absent>"))))
        except Exception as e:
            sites.append(site(False, dict(facts, op="interp.two_pass"), fail="raise", **core.exc_obs(e)))
    return sites, [text, rm, "raw"], [text, rm, [s["ok"] for s in sites]]


C17.run_raw = _run_raw


def _run_custom(self, case):
    from doctrans.defaults_utils import extract_default, set_default_doc
    from doctrans.emitter_utils import interpolate_defaults

    p, v, t, ph, ann, rm = case["prose"], case["value"], case["typ"], case["phrase"], case["announce"], case["remove"]
    facts = dict(prose_facts(p), **value_facts(v, t))
    facts.update(kind="custom", phrase=ph.strip(), announce_form=type(ann).__name__, remove=rm)
    param = {"doc": p, "default": v}
    if t:
        param["typ"] = t
    _, q = set_default_doc(("a", dict(param)), emit_default_doc=True)
    marker = " Defaults to "
    i = q["doc"].index(marker, len(p) - 1)
    text = q["doc"][:i] + " " + ph + q["doc"][i + len(marker):]
    accepted_prose = {wsn(p)} if p[-1] in ".," else {wsn(p), wsn(p) + "."}
    sites = []
    try:
        doc, got = extract_default(text, typ=t, default_search_announce=ann, emit_default_doc=not rm)
        sites.append(site(self.value_ok(v, got, exact_str=False), dict(facts, op="extract.value"), fail="value", got=repr(got)))
        if rm:
            sites.append(site(wsn(doc) in accepted_prose, dict(facts, op="extract.prose"), fail="prose", got=core.short(doc)))
        else:
            sites.append(site(doc == text, dict(facts, op="extract.prose"), fail="text_changed", got=core.short(doc)))
    except Exception as e:
        sites.append(site(False, dict(facts, op="extract"), fail="raise", **core.exc_obs(e)))
    try:
        par = {"doc": text}
        if t:
            par["typ"] = t
        _, got_p = interpolate_defaults(("a", par), default_search_announce=ann, emit_default_doc=not rm)
        sites.append(site("default" in got_p and self.value_ok(v, got_p["default"], exact_str=True), dict(facts, op="interp.value"),
                          fail="value", got=repr(got_p.get("default", "<absent>"))))
        if rm:
            sites.append(site(wsn(got_p["doc"]) in accepted_prose, dict(facts, op="interp.prose"), fail="prose", got=core.short(got_p["doc"])))
        else:
            sites.append(site(got_p["doc"] == text, dict(facts, op="interp.prose"), fail="text_changed", got=core.short(got_p["doc"])))
    except Exception as e:
        sites.append(site(False, dict(facts, op="interp"), fail="raise", **core.exc_obs(e)))
    return sites, [text, rm, "custom", repr(ann)], [text, rm, repr(ann), [s["ok"] for s in sites]]


C17.run_custom = _run_custom

CHECK = C17
