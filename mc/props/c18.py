"""
C18 - word wrapping and line-length configuration are semantically transparent.  E5 x E1: one fresh interpreter
per DOCTRANS_LINE_LENGTH value (every integer of the range in the thorough tier), each enumerating all
width-relative inputs x emitters x word_wrap and comparing parse(wrapped) with parse(unwrapped).
"""
import json
import os
import subprocess
import sys
from concurrent.futures import ThreadPoolExecutor

from mc import boot, core


def run_worker(L):
    env = dict(os.environ, VERIF_REPO=boot.REPO, PYTHONDONTWRITEBYTECODE="1", PYTHONHASHSEED="0")
    env.pop("DOCTRANS_LINE_LENGTH", None)
    if L is not None:
        env["DOCTRANS_LINE_LENGTH"] = str(L)
    r = subprocess.run([sys.executable, "-B", os.path.join(core.HOME, "mc", "c18_worker.py")], env=env,
                       stdout=subprocess.PIPE, stderr=subprocess.PIPE, text=True, cwd=core.HOME)
    if r.returncode != 0:
        # the interpreter could not even import doctrans / run the battery under this configuration
        tail = (r.stderr.strip().splitlines() or ["?"])[-1]
        return [{"ok": False, "facts": {"field": "import_and_run", "L": str(L) if L is not None else "unset"},
                 "obs": {"obs.fail": "configuration_unusable", "obs.exc": tail.split(":")[0][:40]}}]
    return json.loads(r.stdout)


class C18(core.Check):
    id = "C18"
    level = "exploration"
    rule = ("for every DOCTRANS_LINE_LENGTH value of the sweep (quick: unset, 40, 60, 79, 80, 100, 120, 200; thorough: unset "
            "and every integer 40..200) a fresh interpreter emits 40 IRs whose summary / prose / type / return prose have "
            "lengths L-1, L, L+1, 2L+3, 5L plus 41 IRs with absolute prose lengths (default sentence in prose, dashes) with each of 7 emitter kinds, word_wrap on and off, parses both artefacts and "
            "compares the projections; non-trivial = the wrapped text differs from the unwrapped text; distinct = "
            "distinct (L, case, kind)")
    assumptions = ("types are compared with whitespace outside string literals removed (inside quotes a run of blanks counts as one blank), prose modulo runs of whitespace",)

    def widths(self):
        if self.tier == "thorough":
            return [None] + list(range(40, 201))
        return [None, 40, 60, 79, 80, 100, 120, 200]

    def space(self):
        return core.Listed([{"L": w} for w in self.widths()], note="one fresh interpreter per width")

    def run_case(self, case):
        recs = run_worker(case["L"])
        nt = set()
        for r in recs:
            if r["facts"].get("wrapped_text_differs"):
                nt.add((r["facts"]["L"], r["facts"]["case"], r["facts"]["kind"]))
        return recs, None, [case["L"], len(recs)], {"nontrivial_triples": nt, "conversions": sum(1 for r in recs if r["facts"].get("field") == "emit_parse")}

    def execute(self, pool):
        agg, extra = super().execute(pool)
        # distinct_nontrivial is the measured number of (L, case, kind) triples whose wrapped text really differed
        agg.nontrivial = set(agg.sets.get("nontrivial_triples", set()))
        extra.update({"widths": [w if w is not None else "unset" for w in self.widths()]})
        return agg, extra


CHECK = C18
