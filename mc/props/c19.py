"""
C19 - gen writes one well-formed, correctly named definition per mapping entry.

Inputs (E1): importable input modules generated per case (always under the same module name, in a fresh directory, so
a stale import cache would be visible) whose mapping holds every ordered selection of 1..3 (quick: 1..2) entries from
{class + __init__ plain / annotated, function plain / annotated} x output type x name template x prepend {none, constant,
import line, non-import statement first} x imports-from-file {none, 0, 1, 3 import lines}; plus the refusal to overwrite
an existing output through the command line.
Oracle: ast + exec + inspect on the generated module, never doctrans' parsers.
"""
import ast
import importlib
import inspect
import itertools
import json
import os
import shutil
import sys
import tempfile

from mc import boot, core
from mc.core import site

ENTRIES = {
    "ClsPlain": '''class ClsPlain(object):
    """
    ClsPlain summary

    :cvar x: the x
    :cvar y: the y
    """

    def __init__(self, x=5, y="s"):
        """
        init doc

        :param x: the x
        :param y: the y
        """
        self.x = x
''',
    "ClsAnn": '''class ClsAnn(object):
    """
    ClsAnn summary

    :cvar n: the n
    :cvar name: the name
    """

    def __init__(self, n: int = 3, name: str = "b"):
        """
        init doc

        :param n: the n
        :param name: the name
        """
        self.n = n
''',
    "fplain": '''def fplain(p, q=3):
    """
    fplain summary

    :param p: the p
    :param q: the q
    """
    return p
''',
    "fann": '''def fann(p: int = 1, q: float = 0.5):
    """
    fann summary

    :param p: the p
    :param q: the q
    """
    return p
''',
}
ENTRIES["ClsInitLater"] = '''class ClsInitLater(object):
    """
    ClsInitLater summary

    :cvar size: the size
    """

    @staticmethod
    def build(kind):
        """
        another method that precedes __init__

        :param kind: the kind
        """
        return kind

    def __init__(self, size=4, ratio=0.5, label="l"):
        """
        init doc

        :param size: the size
        :param ratio: the ratio
        :param label: the label
        """
        self.size = size
'''
# a subclass without a docstring of its own (the parent is documented); __init__ is its first statement
ENTRIES["ClsInherits"] = '''class _Base(object):
    """
    Base summary

    :cvar depth: the depth
    """


class ClsInherits(_Base):
    def __init__(self, depth=2, width=8):
        """
        init doc

        :param depth: the depth
        :param width: the width
        """
        self.depth = depth
'''
# a parameter annotated with a class from a user package's sub-module that is itself called "typing"
ENTRIES["fvec"] = '''import c19vec.typing


def fvec(v: c19vec.typing.Vec = None, n: int = 2):
    """
    fvec summary

    :param v: the v
    :param n: the n
    """
    return n
'''
# a compound annotation that admits str, with a string default
ENTRIES["ClsUnion"] = '''class ClsUnion(object):
    """
    ClsUnion summary

    :cvar mode: the mode
    :cvar n: the n
    """

    def __init__(self, mode: Union[str, int] = "fast", n: int = 3):
        """
        init doc

        :param mode: the mode
        :param n: the n
        """
        self.mode = mode
'''
EXPECT_ANN = {"fann": {"p": "int", "q": "float"}, "fvec": {"v": "c19vec.typing.Vec", "n": "int"}, "ClsAnn": {"n": "int", "name": "str"}}
EXPECT = {"ClsUnion": [("mode", "fast"), ("n", 3)], "fvec": [("v", None), ("n", 2)], "ClsInherits": [("depth", 2), ("width", 8)], "ClsInitLater": [("size", 4), ("ratio", 0.5), ("label", "l")], "ClsPlain": [("x", 5), ("y", "s")], "ClsAnn": [("n", 3), ("name", "b")], "fplain": [("p", None), ("q", 3)],
          "fann": [("p", 1), ("q", 0.5)]}
TYPES = ("class", "function", "argparse")
TEMPLATES = ("{name}Config", "Gen{name}")
PREPENDS = {"none": None, "constant": "CONST = 1\n", "import": "import sys\n", "stmt_then_import": '__author__ = "gen"\nimport sys\n',
            "docstring_then_import": '"""Generated module."""\nimport sys\n',
            # aliased imports whose text starts like an import line of the imports file (import os / from typing import Optional)
            "aliased_imports": "import os as _os\nfrom typing import Optional as Opt\n",
            # a module docstring followed by something that is not an import / by nothing at all
            "docstring_then_stmt": '"""Generated module."""\nVERSION = 1\n', "docstring_only": '"""Generated module."""\n'}
IMPORT_FILES = {"none": None, "zero": "VALUE = 1\n", "one": "import os\n\nVALUE = 1\n",
                "three": "import os\nfrom typing import Optional\nimport json as j\n\nVALUE = 1\n",
                # given as a dotted path through an alias that the prepend imports (resolved via the prepend's symbols)
                "alias_dotted": "import os\nimport shutil\n\nVALUE = 2\n",
                # a __future__ import among the others: it has to stay the first statement of the generated module
                "future": "from __future__ import annotations\nimport os\nfrom typing import Optional\n\nVALUE = 3\n",
                # root-level imports in two groups with another statement between them: every one of them is carried over
                "split_groups": "import os\nimport json\n\n__author__ = 'x'\n\nfrom collections import OrderedDict\nfrom typing import List\n\nVALUE = 4\n"}
# how the mapping is spelled in the input module: "dictionary / mapping / 2-tuple collection" (incl. one-shot iterables)
MAPFORMS = {"dict": "MAPPING = {%(items)s}", "pairs": "MAPPING = [%(pairs)s]", "zip": "MAPPING = zip([%(names)s], [%(objs)s])",
            "genexpr": "MAPPING = ((n, o) for n, o in [%(pairs)s])"}
MODNAME = "c19_input_mod"


def build_cases(tier):
    maxn = 3 if tier == "thorough" else 2
    maps = []
    for n in range(1, maxn + 1):
        maps += [list(p) for p in itertools.permutations(sorted(ENTRIES), n)]
    cases = []
    for m in maps:
        for t in TYPES:
            for tpl in TEMPLATES:
                for pre in PREPENDS:
                    for imp in IMPORT_FILES:
                        if tier == "quick" and tpl == TEMPLATES[1] and (pre != "none" or imp != "none"):
                            continue
                        cases.append({"mapping": m, "type": t, "tpl": tpl, "prepend": pre, "imports": imp, "via": "api"})
    for m in maps:
        if len(m) > 2:
            continue
        for t in TYPES:
            for form in ("pairs", "zip", "genexpr"):
                for pre, imp in (("none", "none"), ("import", "one")):
                    cases.append({"mapping": m, "type": t, "tpl": TEMPLATES[0], "prepend": pre, "imports": imp, "via": "api", "mapform": form})
    for t in TYPES:
        cases.append({"mapping": ["fplain"], "type": t, "tpl": TEMPLATES[0], "prepend": "none", "imports": "none", "via": "cli_existing"})
        # the refusal must not depend on the other options
        cases.append({"mapping": ["fplain"], "type": t, "tpl": TEMPLATES[0], "prepend": "import", "imports": "none", "via": "cli_existing"})
        cases.append({"mapping": ["fplain"], "type": t, "tpl": TEMPLATES[0], "prepend": "none", "imports": "one", "via": "cli_existing"})
        cases.append({"mapping": ["fplain"], "type": t, "tpl": TEMPLATES[0], "prepend": "import", "imports": "three", "via": "cli_existing"})
        # the output spelled ~/generated.py (HOME points at the case directory)
        cases.append({"mapping": ["fplain"], "type": t, "tpl": TEMPLATES[0], "prepend": "none", "imports": "none", "via": "cli_existing", "tilde": True})
        cases.append({"mapping": ["fplain", "ClsPlain"], "type": t, "tpl": TEMPLATES[0], "prepend": "import", "imports": "one", "via": "cli", "tilde": True})
        cases.append({"mapping": ["fplain", "ClsPlain"], "type": t, "tpl": TEMPLATES[0], "prepend": "import", "imports": "one", "via": "cli"})
    return cases


class _Space(core.Space):
    def __init__(self, cases):
        self.cases = cases

    def __len__(self):
        return len(self.cases)

    def __getitem__(self, i):
        return self.cases[i]

    def describe(self):
        return {"gen_calls": len(self.cases)}


def stmt_src(n):
    return ast.unparse(n)


class C19(core.Check):
    id = "C19"
    level = "exploration"
    rule = ("every generated (mapping, output type, name template, prepend, imports-from-file) combination is run through the real "
            "gen (API; CLI for a subset incl. the existing-output refusal) in a fresh directory; the written module is parsed, "
            "executed and inspected; non-trivial = every case (each writes a module); distinct = distinct case")
    assumptions = ("prepend and imports-from-file never share an import line", "the input module is always importable as "
                   "'%s' from a fresh directory placed first on sys.path" % MODNAME)

    def space(self):
        if not hasattr(self, "_cases"):
            self._cases = build_cases(self.tier)
        return _Space(self._cases)

    def run_case(self, case):
        boot.boot(need_cli=True)
        from doctrans.gen import gen

        d = tempfile.mkdtemp(prefix="c19_")
        base = {"type": case["type"], "tpl": case["tpl"], "prepend": case["prepend"], "imports": case["imports"],
                "mapping": ">".join(case["mapping"]), "via": case["via"], "n": len(case["mapping"])}
        if case.get("mapform"):
            base["mapform"] = case["mapform"]
        try:
            src = "from typing import Union\n\n\n" + "\n\n".join(ENTRIES[e] for e in case["mapping"])
            src += "\n\n" + MAPFORMS[case.get("mapform", "dict")] % {
                "items": ", ".join("%r: %s" % (e, e) for e in case["mapping"]),
                "pairs": ", ".join("(%r, %s)" % (e, e) for e in case["mapping"]),
                "names": ", ".join("%r" % e for e in case["mapping"]), "objs": ", ".join(case["mapping"])} + "\n"
            with open(os.path.join(d, MODNAME + ".py"), "w") as f:
                f.write(src)
            if "fvec" in case["mapping"]:
                os.makedirs(os.path.join(d, "c19vec"))
                with open(os.path.join(d, "c19vec", "__init__.py"), "w") as f:
                    f.write("")
                with open(os.path.join(d, "c19vec", "typing.py"), "w") as f:
                    f.write("class Vec(object):\n    pass\n")
                for m in [k for k in sys.modules if k == "c19vec" or k.startswith("c19vec.")]:
                    sys.modules.pop(m, None)
            imp_path = None
            prepend_text = PREPENDS[case["prepend"]]
            if case["imports"] == "alias_dotted":
                pkg = os.path.join(d, "c19pkg", "sub")
                os.makedirs(pkg)
                with open(os.path.join(d, "c19pkg", "__init__.py"), "w") as f:
                    f.write("from . import sub\n")
                with open(os.path.join(pkg, "__init__.py"), "w") as f:
                    f.write("from . import mod\n")
                with open(os.path.join(pkg, "mod.py"), "w") as f:
                    f.write(IMPORT_FILES["alias_dotted"])
                imp_path = "cp.sub.mod"
                prepend_text = (prepend_text or "") + "import c19pkg as cp\n"
                for m in [k for k in sys.modules if k == "c19pkg" or k.startswith("c19pkg.")]:
                    sys.modules.pop(m, None)
            elif IMPORT_FILES[case["imports"]] is not None:
                imp_path = os.path.join(d, "imports_src.py")
                with open(imp_path, "w") as f:
                    f.write(IMPORT_FILES[case["imports"]])
            out = os.path.join(d, "generated.py")
            sys.path.insert(0, d)
            sys.modules.pop(MODNAME, None)
            importlib.invalidate_caches()
            existing = b"# existing output\nKEEP = 1\n"
            if case["via"] == "cli_existing":
                with open(out, "wb") as f:
                    f.write(existing)
            exc = None
            old_home = os.environ.get("HOME")
            if case.get("tilde"):
                os.environ["HOME"] = d
                base["tilde"] = True
            with boot.quiet():
                try:
                    if case["via"] == "api":
                        gen(name_tpl=case["tpl"], input_mapping=MODNAME + ".MAPPING", type_=case["type"], output_filename=out,
                            prepend=prepend_text, imports_from_file=imp_path)
                    else:
                        from doctrans.__main__ import main

                        argv = ["gen", "--name-tpl", case["tpl"], "--input-mapping", MODNAME + ".MAPPING", "--type", case["type"],
                                "--output-filename", "~/generated.py" if case.get("tilde") else out]
                        if prepend_text is not None:
                            argv += ["--prepend", prepend_text.replace("\n", "\\n")]
                        if imp_path:
                            argv += ["--imports-from-file", imp_path]
                        main(argv)
                except BaseException as e:
                    if isinstance(e, KeyboardInterrupt):
                        raise
                    exc = e
                finally:
                    if case.get("tilde"):
                        if old_home is None:
                            os.environ.pop("HOME", None)
                        else:
                            os.environ["HOME"] = old_home
            sites = []
            if case["via"] == "cli_existing":
                with open(out, "rb") as f:
                    now = f.read()
                sites.append(site(exc is not None, dict(base, field="refuses_existing_output"), fail="existing_output_not_refused"))
                sites.append(site(now == existing, dict(base, field="existing_output_untouched"), fail="existing_output_modified"))
                return sites, core.jkey(case), [core.jkey(case), "refusal"]
            if exc is not None:
                sites.append(site(False, dict(base, field="call"), fail="raise", **core.exc_obs(exc)))
                sites.append(site(not os.path.exists(out) or os.path.getsize(out) == 0 or _parses(out), dict(base, field="failed_call_output"),
                                  fail="partial_output_left_behind"))
                return sites, core.jkey(case), [core.jkey(case), "raise"]
            sites.append(site(True, dict(base, field="call")))
            with open(out) as f:
                text = f.read()
            try:
                tree = ast.parse(text)
            except SyntaxError as e:
                sites.append(site(False, dict(base, field="parses"), fail="syntax_error", msg=core.short(str(e), 60)))
                return sites, core.jkey(case), [core.jkey(case), "syntax"]
            sites.append(site(True, dict(base, field="parses")))
            want_names = [case["tpl"].format(name=e) for e in case["mapping"]]
            defs = [n for n in tree.body if isinstance(n, (ast.ClassDef, ast.FunctionDef))]
            got_names = [n.name for n in defs]
            sites.append(site(got_names == want_names, dict(base, field="definition_names"), fail="names", got=got_names))
            want_kind = ast.ClassDef if case["type"] == "class" else ast.FunctionDef
            sites.append(site(all(isinstance(n, want_kind) for n in defs), dict(base, field="definition_kinds"), fail="kinds",
                              got=[type(n).__name__ for n in defs]))
            alls = [n for n in tree.body if isinstance(n, ast.Assign) and any(isinstance(t, ast.Name) and t.id == "__all__" for t in n.targets)]
            ok_all = len(alls) == 1 and _lit(alls[0].value) == want_names and tree.body and tree.body[-1] is alls[0]
            sites.append(site(ok_all, dict(base, field="__all__"), fail="__all__", got=[_lit(a.value) for a in alls]))
            # annotations of generated functions are the source's (read from the syntax tree, no execution needed)
            if case["type"] == "function":
                for e, gname in zip(case["mapping"], want_names):
                    fd = next((n for n in defs if n.name == gname and isinstance(n, ast.FunctionDef)), None)
                    if fd is None or e not in EXPECT_ANN:
                        continue
                    got_ann = {a.arg: ast.unparse(a.annotation) for a in fd.args.args + fd.args.kwonlyargs if a.annotation is not None}
                    sites.append(site(got_ann == EXPECT_ANN[e], dict(base, field="annotations", entry=e), fail="annotations", got=core.short(repr(got_ann), 80)))
            # prepend + imports: once, before the definitions
            first_def = next((i for i, n in enumerate(tree.body) if isinstance(n, (ast.ClassDef, ast.FunctionDef))), len(tree.body))
            head = [stmt_src(n) for n in tree.body[:first_def]]
            whole = [stmt_src(n) for n in tree.body]
            wanted = []
            if prepend_text:
                wanted += [stmt_src(n) for n in ast.parse(prepend_text).body]
            if imp_path:
                wanted += [stmt_src(n) for n in ast.parse(IMPORT_FILES[case["imports"]]).body if isinstance(n, (ast.Import, ast.ImportFrom))]
            # gen executes the prepend's imports itself: keep the alias package importable while the output is executed
            bad = [w for w in wanted if whole.count(w) != 1 or w not in head]
            sites.append(site(not bad, dict(base, field="prepend_and_imports_once_first"), fail="prepend_or_imports", missing_or_dup=bad[:3]))
            extra = [h for h in head if h not in wanted]
            sites.append(site(not extra, dict(base, field="nothing_else_before_definitions"), fail="unexpected_statements", got=extra[:3]))
            # interface of every definition (python's own view)
            ns = {"__name__": "generated"}
            try:
                import argparse as _ap
                import typing

                ns.update({"Optional": typing.Optional, "Union": typing.Union, "loads": json.loads})
                if "fvec" in case["mapping"]:  # the generated module names the user's package; gen is not asked to import it
                    importlib.import_module("c19vec.typing")
                    ns["c19vec"] = sys.modules["c19vec"]
                exec(compile(tree, out, "exec"), ns)
            except Exception as e:
                sites.append(site(False, dict(base, field="executes"), fail="exec_raise", exc=type(e).__name__, msg=core.short(str(e), 60)))
                return sites, core.jkey(case), [core.jkey(case), text]
            sites.append(site(True, dict(base, field="executes")))
            for e, gname in zip(case["mapping"], want_names):
                if gname not in ns:
                    continue
                f = dict(base, field="interface", entry=e)
                want = EXPECT[e]
                try:
                    got = self.interface(case["type"], ns[gname])
                except Exception as ex:
                    sites.append(site(False, f, fail="inspect_raise", exc=type(ex).__name__))
                    continue
                ok = [g[0] for g in got] == [w[0] for w in want] and all(
                    (w[1] is None and g[1] in (None, 0, "", 0.0)) or (w[1] is not None and type(g[1]) is type(w[1]) and g[1] == w[1])
                    for g, w in zip(got, want))
                sites.append(site(ok, f, fail="interface", got=core.short(repr(got), 80)))
            return sites, core.jkey(case), [core.jkey(case), text]
        finally:
            if d in sys.path:
                sys.path.remove(d)
            sys.modules.pop(MODNAME, None)
            shutil.rmtree(d, ignore_errors=True)

    @staticmethod
    def interface(type_, obj):
        if type_ == "class":
            # `return_type` is doctrans' documented convention for carrying a function's returned value; not a parameter
            return [(k, v) for k, v in obj.__dict__.items() if not k.startswith("__") and not callable(v) and k != "return_type"]
        if type_ == "function":
            return [(n, None if p.default is p.empty else p.default) for n, p in inspect.signature(obj).parameters.items()]
        import argparse

        parser = argparse.ArgumentParser(add_help=False)
        obj(parser)
        return [(a.dest, a.default) for a in parser._actions]


def _lit(node):
    try:
        return ast.literal_eval(node)
    except Exception:
        return ast.unparse(node)


def _parses(path):
    try:
        with open(path) as f:
            ast.parse(f.read())
        return True
    except SyntaxError:
        return False


CHECK = C19
