"""
C20 - rejected or failing invocations never damage source files.

(a) argument space (E1): for each sub-command the product of option presence / validity and file existence; an
    independent reference validator (written from the property text) says accepted / rejected.  Rejected => non-zero
    exit and the directory snapshot is unchanged; accepted => the invocation completes without an exception.
(b) fault enumeration (E4): for every multi-file operation over generated projects, a recording run yields the
    write-path opens and conversion steps; then one execution per fault point (every open x {before open, after open /
    before write, mid-write}; every conversion step raising).  Afterwards every file must be byte-identical to its
    pre-image or to its fault-free post-image (a file that did not exist may only be absent or complete).
"""
import ast
import itertools
import os
import shutil
import sys
import tempfile

from mc import boot, core
from mc import project as pj
from mc.faults import FaultInjector
from mc.core import site

FLAG = {"class": "--class", "function": "--function", "argparse_function": "--argparse-function"}
SP_IN = "VAL: int = 5\n\n\nclass A(object):\n    attr: str = 's'\n"
SP_OUT = "Q: float = 0.5\n\n\ndef gg(u, v: int = 7):\n    return u\n"
GEN_MOD = "def fplain(p, q=3):\n    \"\"\"\n    fplain summary\n\n    :param p: the p\n    :param q: the q\n    \"\"\"\n    return q\n\n\nMAPPING = {'fplain': fplain}\n"


def argv_cases():
    cases = []
    # ---- sync
    for truth in ("class", "function", "argparse_function", None, "bogus"):
        for combo in itertools.product(("absent", "existing", "missing"), repeat=3):
            for names in (True, False, "also_for_absent_files"):
                cases.append({"cmd": "sync", "truth": truth, "files": list(combo), "names": names})
    # legal files with stand-alone "# type:" comments; existing but empty target files
    for truth in ("class", "function", "argparse_function"):
        for decor in ("type_comment", "empty_targets", "decorated"):
            for combo in (("existing", "existing", "existing"), ("existing", "existing", "absent"), ("existing", "absent", "existing"),
                          ("absent", "existing", "existing")):
                cases.append({"cmd": "sync", "truth": truth, "files": list(combo), "names": True, "decor": decor})
    # several files of the truth's kind: the first one is the truth; it must exist, the others are targets
    for truth in ("class", "function", "argparse_function"):
        for second in ("first_missing", "second_missing", "both_existing", "both_missing"):
            for other in ("existing", "missing", "absent"):
                cases.append({"cmd": "sync", "truth": truth, "files": [("existing" if k == truth else (other if k == [x for x in pj.KINDS if x != truth][0] else "absent"))
                                                                     for k in pj.KINDS], "names": True, "second": second})
    # ---- sync_properties
    for fin in ("existing", "missing", "absent"):
        for fout in ("existing", "missing", "absent"):
            for params in ("both", "no_input_param", "no_output_param", "unresolvable"):
                cases.append({"cmd": "sync_properties", "fin": fin, "fout": fout, "params": params})
    # ---- gen
    for out in ("new", "existing", "absent"):
        for tpl in (True, False):
            for mapping in ("valid", "absent", "bogus"):
                for typ in ("class", "function", "argparse", "bogus", None):
                    cases.append({"cmd": "gen", "out": out, "tpl": tpl, "mapping": mapping, "type": typ})
    # gen invocations that pass validation but cannot produce a module that parses: nothing may be left behind
    for typ in ("class", "function", "argparse"):
        for out in ("new", "existing"):
            cases.append({"cmd": "gen", "out": out, "tpl": "not_an_identifier", "mapping": "valid", "type": typ})
            cases.append({"cmd": "gen", "out": out, "tpl": True, "mapping": "valid", "type": typ, "prepend": "plain_text"})
    # the mapping is addressed through an alias that --prepend imports; --imports-from-file makes the prepended symbols known
    for typ in ("class", "function", "argparse"):
        for depth in (1, 2, 3):
            cases.append({"cmd": "gen", "out": "new", "tpl": True, "mapping": "via_alias_depth%d" % depth, "type": typ})
    return [dict(c, part="argv") for c in cases]


def fault_ops(tier):
    ops = []
    states = ("missing", "nodef", "agree", "stale", "empty")
    for truth in pj.KINDS:
        others = [k for k in pj.KINDS if k != truth]
        for pre in itertools.product(states, repeat=2):
            ops.append({"op": "sync", "truth": truth, "kinds": list(pj.KINDS), "pre": dict(zip(others, pre))})
        if tier == "thorough":
            for o in others:
                for st in states:
                    ops.append({"op": "sync", "truth": truth, "kinds": [k for k in pj.KINDS if k in (truth, o)], "pre": {o: st}})
    ops.append({"op": "sync_properties"})
    ops.append({"op": "gen", "type": "function"})
    ops.append({"op": "gen", "type": "argparse"})
    return [dict(o, part="fault") for o in ops]


class _Space(core.Space):
    def __init__(self, cases):
        self.cases = cases

    def __len__(self):
        return len(self.cases)

    def __getitem__(self, i):
        return self.cases[i]

    def describe(self):
        return {"argv_vectors": sum(1 for c in self.cases if c["part"] == "argv"),
                "fault_operations": sum(1 for c in self.cases if c["part"] == "fault")}


def snapshot(root):
    out = {}
    for dp, dn, fn in os.walk(root):
        dn[:] = [d for d in dn if d != "__pycache__"]
        for f in fn:
            p = os.path.join(dp, f)
            with open(p, "rb") as fh:
                out[os.path.relpath(p, root)] = fh.read()
    return out


def restore(root, snap):
    for dp, dn, fn in os.walk(root):
        dn[:] = [d for d in dn if d != "__pycache__"]
        for f in fn:
            p = os.path.join(dp, f)
            if os.path.relpath(p, root) not in snap:
                os.unlink(p)
    for rel, b in snap.items():
        with open(os.path.join(root, rel), "wb") as fh:
            fh.write(b)


class C20(core.Check):
    id = "C20"
    level = "fault_enumeration"
    rule = ("(a) every argv vector of the option-presence / file-existence product of the three sub-commands is run through the real "
            "command-line entry point and judged by an independent validator; (b) for every operation of the project set a recording "
            "run lists its write-path opens and conversion steps, then one execution per (open x {before open, after open, mid "
            "write}) and per conversion step injects that single fault; every file is compared with its pre-image and its "
            "fault-free post-image; non-trivial = a fault that actually fired or an argv vector that reaches dispatch; "
            "distinct = distinct (operation, fault point) / argv vector")
    assumptions = ("buffered Python writes: a process kill coincides with one of the enumerated points; OS-level torn pages and "
                   "power loss are not modelled", "a rejected invocation is one the property text lists: missing truth / truth file, "
                   "fewer than two files, missing input or output file, existing gen output (plus argparse's own required options)")

    def space(self):
        if not hasattr(self, "_cases"):
            self._cases = argv_cases() + fault_ops(self.tier)
        return _Space(self._cases)

    def _root(self):
        if not hasattr(self, "_dir"):
            self._dir = tempfile.mkdtemp(prefix="c20_%d_" % os.getpid())
            import atexit

            atexit.register(shutil.rmtree, self._dir, True)
        shutil.rmtree(self._dir, ignore_errors=True)
        os.makedirs(self._dir)
        return self._dir

    def run_case(self, case):
        boot.boot(need_cli=True)
        if case["part"] == "argv":
            return self.run_argv(case)
        return self.run_fault(case)

    # ------------------------------------------------------------------ (a)
    def run_argv(self, case):
        from doctrans.__main__ import main

        root = self._root()
        argv, accepted, why = self.build_argv(case, root)
        before = snapshot(root)
        exc = None
        sys.path.insert(0, root)
        sys.modules.pop("c20_genmod", None)
        import importlib

        importlib.invalidate_caches()
        with boot.quiet():
            try:
                main(argv)
            except BaseException as e:
                if isinstance(e, KeyboardInterrupt):
                    raise
                exc = e
        if root in sys.path:
            sys.path.remove(root)
        for m in [m for m in sys.modules if m == "c20_genmod" or m.split(".")[0] == "c20_pkg"]:
            sys.modules.pop(m, None)
        after = snapshot(root)
        facts = {k: (v if not isinstance(v, list) else ",".join(v)) for k, v in case.items() if k != "part"}
        facts.update(part="argv", expected="accepted" if accepted else "rejected", why=why)
        sites = []
        if accepted:
            sites.append(site(exc is None, dict(facts, field="accepted_runs_without_error"), fail="internal_error",
                              **(core.exc_obs(exc) if exc is not None else {})))
            if case["cmd"] == "gen" and exc is None:
                # the generated module is complete: it parses and defines one <name>Config per entry of the mapping
                gen_src = after.get("generated.py")
                try:
                    defined = [n.name for n in ast.parse(gen_src.decode()).body if isinstance(n, (ast.ClassDef, ast.FunctionDef))] if gen_src is not None else None
                except SyntaxError:
                    defined = "does not parse"
                sites.append(site(defined == ["fplainConfig"], dict(facts, field="generated_module_complete"), fail="generated_module",
                                  got=defined))
        else:
            nonzero = isinstance(exc, SystemExit) and exc.code not in (0, None) or isinstance(exc, (IOError, OSError))
            if why in ("mapping not importable", "unresolvable address", "generated text does not parse"):
                # not a usage error of the command line: any reported error will do, as long as nothing is touched
                nonzero = exc is not None
            sites.append(site(bool(nonzero), dict(facts, field="rejected_with_usage_error"), fail="not_a_usage_error",
                              got=type(exc).__name__ if exc is not None else "no error"))
            sites.append(site(after == before, dict(facts, field="rejected_leaves_filesystem"), fail="filesystem_changed",
                              changed=sorted(set(k for k in set(after) | set(before) if after.get(k) != before.get(k)))))
        return sites, (" ".join(argv) if accepted else None), [argv, type(exc).__name__ if exc else "ok"]

    def build_argv(self, case, root):
        """Returns (argv, accepted?, reason) - the reference validator lives here."""
        if case["cmd"] == "sync":
            argv = ["sync"]
            given, existing = 0, {}
            for kind, st in zip(pj.KINDS, case["files"]):
                if st == "absent":
                    if case["names"] == "also_for_absent_files":
                        argv += [FLAG[kind] + "-name", pj.DEF_NAMES[kind]]  # a name without a file: harmless, must be ignored
                    continue
                p = os.path.join(root, pj.FILES[kind])
                if st == "existing":
                    with open(p, "w") as f:
                        text = pj.render(kind, "v1")
                        if case.get("decor") == "type_comment":
                            text = "# type: this line is prose, not a type\n" + text + "\nprint(len('x'))  # type: also prose\n"
                        if case.get("decor") == "empty_targets" and kind != case["truth"]:
                            text = ""
                        if case.get("decor") == "decorated" and kind != "class":
                            # the existing definition carries a decorator that is a call, not a bare name
                            text = "import functools\n\n\n" + text.replace("def ", "@functools.lru_cache(maxsize=None)\ndef ", 1)
                        f.write(text)
                second = case.get("second") if kind == case["truth"] else None
                if second:
                    p2 = os.path.join(root, "second_" + pj.FILES[kind])
                    if second in ("first_missing", "both_missing"):
                        os.unlink(p)
                        st = "missing"
                    if second in ("first_missing", "both_existing"):
                        with open(p2, "w") as f:
                            f.write(pj.render(kind, "v2"))
                    argv += [FLAG[kind], p, FLAG[kind], p2]
                    given += 1
                else:
                    argv += [FLAG[kind], p]
                if case["names"]:
                    argv += [FLAG[kind] + "-name", pj.DEF_NAMES[kind]]
                given += 1
                existing[kind] = st == "existing"
            if case["truth"] is not None:
                argv += ["--truth", case["truth"]]
            if case["truth"] is None:
                return argv, False, "no --truth"
            if case["truth"] == "bogus":
                return argv, False, "invalid --truth"
            if case["truth"] not in existing:
                return argv, False, "truth kind has no file"
            if given < 2:
                return argv, False, "fewer than two files"
            if not existing[case["truth"]]:
                return argv, False, "truth file missing"
            if not case["names"]:
                return argv, False, "names not given"  # without names nothing identifies the definitions: must be a usage error
            return argv, True, "ok"
        if case["cmd"] == "sync_properties":
            argv = ["sync_properties"]
            ok = True
            why = "ok"
            for opt, st, text, fn in (("--input-filename", case["fin"], SP_IN, "sp_in.py"), ("--output-filename", case["fout"], SP_OUT, "sp_out.py")):
                p = os.path.join(root, fn)
                if st == "existing":
                    with open(p, "w") as f:
                        f.write(text)
                if st != "absent":
                    argv += [opt, p]
                if st != "existing":
                    ok, why = False, "%s %s" % (opt, st)
            if case["params"] != "no_input_param":
                argv += ["--input-param", "VAL" if case["params"] != "unresolvable" else "NOPE"]
            if case["params"] != "no_output_param":
                argv += ["--output-param", "Q"]
            if case["params"] in ("no_input_param", "no_output_param"):
                ok, why = False, case["params"]
            if case["params"] == "unresolvable" and ok:
                ok, why = False, "unresolvable address"
            return argv, ok, why
        # gen
        argv = ["gen"]
        ok, why = True, "ok"
        with open(os.path.join(root, "c20_genmod.py"), "w") as f:
            f.write(GEN_MOD)
        out = os.path.join(root, "generated.py")
        if case["out"] == "existing":
            with open(out, "w") as f:
                f.write("KEEP = 1\n")
            ok, why = False, "output exists"
        if case["out"] != "absent":
            argv += ["-o", out]
        else:
            ok, why = False, "no output"
        if case["tpl"] == "not_an_identifier":
            argv += ["--name-tpl", "{name}-config"]
            if ok:
                ok, why = False, "generated text does not parse"
        elif case["tpl"]:
            argv += ["--name-tpl", "{name}Config"]
        else:
            ok, why = False, "no --name-tpl"
        if case["mapping"] == "valid":
            argv += ["--input-mapping", "c20_genmod.MAPPING"]
        elif case["mapping"].startswith("via_alias_depth"):
            depth = int(case["mapping"][-1])
            pkg = os.path.join(root, "c20_pkg")
            os.makedirs(os.path.join(pkg, "sub", "inner"))
            with open(os.path.join(pkg, "__init__.py"), "w") as f:
                f.write("from . import sub\nfrom .sub.inner.leaf import MAPPING\n")
            with open(os.path.join(pkg, "sub", "__init__.py"), "w") as f:
                f.write("from . import inner\nfrom .inner.leaf import MAPPING\n")
            with open(os.path.join(pkg, "sub", "inner", "__init__.py"), "w") as f:
                f.write("from . import leaf\nfrom .leaf import MAPPING\n")
            with open(os.path.join(pkg, "sub", "inner", "leaf.py"), "w") as f:
                f.write(GEN_MOD)
            with open(os.path.join(root, "imports_src.py"), "w") as f:
                f.write("from typing import Optional\nimport os\n\nX = 1\n")
            argv += ["--input-mapping", "c20alias." + "sub.inner."[: {1: 0, 2: 4, 3: 10}[depth]] + "MAPPING",
                     "--prepend", "import c20_pkg as c20alias\\n", "--imports-from-file", os.path.join(root, "imports_src.py")]
        elif case["mapping"] == "bogus":
            argv += ["--input-mapping", "c20_nonexistent_module.MAPPING"]
            ok, why = False, "mapping not importable"
        else:
            ok, why = False, "no --input-mapping"
        if case["type"] is not None:
            argv += ["--type", case["type"]]
        if case["type"] in (None, "bogus"):
            ok, why = False, "bad --type"
        if case.get("prepend") == "plain_text":
            argv += ["--prepend", "Licensed under the terms of the licence\\n"]
            if ok:
                ok, why = False, "generated text does not parse"
        return argv, ok, why

    # ------------------------------------------------------------------ (b)
    def prepare(self, case, root):
        """Set up the project; return a thunk that runs the operation."""
        if case["op"] == "sync":
            P = pj.Project(root)
            P.write(case["truth"], pj.render(case["truth"], "v1"))
            for k, st in case["pre"].items():
                P.write(k, None if st == "missing" else pj.prestate_text(k, st, "v1"))
            return lambda: P.sync(case["truth"], case["kinds"], "api")[0]
        if case["op"] == "sync_properties":
            with open(os.path.join(root, "sp_in.py"), "w") as f:
                f.write(SP_IN)
            with open(os.path.join(root, "sp_out.py"), "w") as f:
                f.write(SP_OUT)

            def run():
                from doctrans.sync_properties import sync_properties

                with boot.quiet():
                    try:
                        sync_properties(input_eval=False, input_filename=os.path.join(root, "sp_in.py"), input_params=["VAL", "A.attr"],
                                        output_filename=os.path.join(root, "sp_out.py"), output_params=["Q", "gg.v"])
                    except BaseException as e:
                        return e
                return None

            return run
        with open(os.path.join(root, "c20_genmod.py"), "w") as f:
            f.write(GEN_MOD)

        def run_gen():
            from doctrans.gen import gen
            import importlib

            sys.path.insert(0, root)
            sys.modules.pop("c20_genmod", None)
            importlib.invalidate_caches()
            with boot.quiet():
                try:
                    gen(name_tpl="{name}Config", input_mapping="c20_genmod.MAPPING", type_=case["type"],
                        output_filename=os.path.join(root, "generated.py"), prepend="import sys\n")
                except BaseException as e:
                    return e
                finally:
                    if root in sys.path:
                        sys.path.remove(root)
                    sys.modules.pop("c20_genmod", None)
            return None

        return run_gen

    def run_fault(self, case):
        root = self._root()
        run = self.prepare(case, root)
        pre = snapshot(root)
        with FaultInjector(root) as rec:
            exc0 = run()
        post = snapshot(root)
        op_s = case["op"] + (":%s:%s" % (pj.SHORT[case["truth"]], ",".join("%s=%s" % (pj.SHORT[k], v) for k, v in sorted(case["pre"].items())))
                             if case["op"] == "sync" else (":" + case.get("type", "")))
        base = {"part": "fault", "op": op_s, "kinds": "".join(pj.SHORT[k] for k in case.get("kinds", []))}
        sites = []
        faults = [("open", i, kind) for i in range(len(rec.opens)) for kind in ("before_open", "after_open", "mid_write")]
        faults += [("conv", k) for k in range(len(rec.convs))]
        fired = 0
        nt = []
        for fault in faults:
            restore(root, pre)
            with FaultInjector(root, fault) as inj:
                exc = run()
            if not inj.fired:
                continue
            fired += 1
            now = snapshot(root)
            if fault[0] == "open":
                fdesc = {"fault": fault[2], "at": "open#%d:%s" % (fault[1], rec.opens[fault[1]][0]), "mode": rec.opens[fault[1]][1]}
            else:
                fdesc = {"fault": "conversion_raises", "at": "conv#%d:%s" % (fault[1], rec.convs[fault[1]])}
            nt.append(op_s + "|" + fdesc["at"] + "|" + fdesc["fault"])
            for rel in sorted(set(pre) | set(post) | set(now)):
                b0, b1, b = pre.get(rel), post.get(rel), now.get(rel)
                ok = b == b0 or b == b1
                state = "ok"
                if not ok:
                    if b is None:
                        state = "deleted"
                    elif b == b"":
                        state = "empty_file"
                    elif b1 is not None and b1.startswith(b) and len(b) < len(b1):
                        state = "truncated_prefix_of_new_content"
                    elif b0 is not None and b0.startswith(b):
                        state = "truncated_prefix_of_old_content"
                    else:
                        state = "other_content"
                sites.append(site(ok, dict(base, field="file_intact", file=rel, existed_before=b0 is not None, **fdesc),
                                  fail="file_damaged", state=state))
            sites.append(site(exc is not None or now == post, dict(base, field="fault_is_reported", **fdesc), fail="fault_swallowed"))
        counters = {"fault_points": fired, "nt_faults": nt}
        return sites, None, [op_s, fired], counters

    def execute(self, pool):
        agg, extra = super().execute(pool)
        agg.nontrivial |= set(agg.sets.pop("nt_faults", set()))
        return agg, extra


CHECK = C20
