"""
Reference model shared by the round-trip / chain / sync checks (DESIGN.md section 3.5).

Everything here is independent of doctrans: it uses only ``ast`` and plain string handling.
"""
import ast
import re

NONE_STR = "```(None)```"
NONE_FORMS = (None, "None", "(None)", NONE_STR, "```None```")
ABSENT = "<absent>"
ZERO = {"int": 0, "float": 0.0, "str": "", "bool": False, "complex": 0j}


def wsn(s):
    return " ".join(s.split())


def norm_type(t):
    if t is None or t == "":
        return None
    try:
        return ast.unparse(ast.parse(t.strip(), mode="eval"))
    except SyntaxError:
        return "<unparseable:%s>" % t


def norm_code(src):
    s = src.strip()
    while s.startswith("`") and s.endswith("`") and len(s) > 1:
        s = s.strip("`")
    try:
        node = ast.parse(s, mode="eval")
        return ast.unparse(node)
    except SyntaxError:
        return "<unparseable:%s>" % s


def is_code_quoted(v):
    return isinstance(v, str) and len(v) > 6 and v.startswith("```") and v.endswith("```")


def norm_default(v, present=True, typ=None):
    """Canonical form of a default: ABSENT | ("none",) | (pytype, value) | ("code", src)."""
    if not present:
        return ABSENT
    if v == "None" and isinstance(typ, str) and (typ == "str" or typ.startswith("Literal[")):
        return ("str", "None")  # the four letters, not the missing value: None is not a member of these types
    if isinstance(v, ast.AST):
        return ("ast", ast.unparse(v))
    if v is None or (isinstance(v, str) and v in NONE_FORMS):
        return ("none",)
    if isinstance(v, bool):
        return ("bool", v)
    if isinstance(v, int):
        return ("int", v)
    if isinstance(v, float):
        return ("float", repr(v))
    if isinstance(v, complex):
        return ("complex", repr(v))
    if isinstance(v, str):
        if is_code_quoted(v):
            return ("code", norm_code(v))
        return ("str", v)
    if isinstance(v, (list, tuple, dict, set)):
        return ("code", norm_code(repr(v)))
    return ("other", repr(v))


def project_param(p):
    """IR param dict -> (typ, prose, default) canonical triple."""
    typ = norm_type(p.get("typ")) if p.get("typ") is not None else None
    doc = p.get("doc")
    if doc is not None and not isinstance(doc, str):
        doc = "<nonstr:%r>" % (doc,)
    doc = wsn(doc) if doc else None
    return typ, doc, norm_default(p.get("default"), "default" in p, typ)


def project(ir):
    params = [(n,) + project_param(p) for n, p in (ir.get("params") or {}).items()]
    r = None
    rets = ir.get("returns")
    if rets and "return_type" in rets and rets["return_type"] is not None:
        r = project_param(rets["return_type"])
        if r == (None, None, ABSENT):
            r = None
    return {"doc": wsn(ir.get("doc") or ""), "params": params, "ret": r}


_DEFAULT_TAIL = re.compile(r"\s*Defaults to .*$", re.S)


def strip_default_sentence(doc):
    """Remove a trailing ``Defaults to ...`` sentence (our prose alphabets never contain that phrase)."""
    if doc is None:
        return None, False
    m = _DEFAULT_TAIL.search(doc)
    if not m:
        return doc, False
    return doc[: m.start()].rstrip(), True


def prose_ok(inp, out, allow_default_sentence=True):
    """inp/out: whitespace-normalised prose or None.  Accept p, or p + '.' when p has no final punctuation,
    optionally followed by a 'Defaults to ...' sentence."""
    if out is not None and allow_default_sentence:
        out, _ = strip_default_sentence(out)
        out = out or None
    if inp is None:
        return out is None
    if out is None:
        return False
    if out == inp:
        return True
    if inp[-1] not in ".," and out == inp + ".":
        return True
    return False


def code_equiv(a, b):
    """Two code sources are the same expression modulo redundant outer parentheses/back-ticks."""
    return norm_code(a) == norm_code(b)


def default_ok(inp, out, absent_ok=("absent",), typ=None):
    """inp/out canonical defaults.  ``absent_ok``: what an absent input default may become:
    "absent", "zero" (zero value of scalar typ), "none"."""
    if inp == ABSENT:
        if out == ABSENT:
            return "absent" in absent_ok
        if out == ("none",):
            return "none" in absent_ok
        if "zero" in absent_ok and typ in ZERO and out[0] == typ:
            z = ZERO[typ]
            return out[1] == (repr(z) if typ == "float" else z)
        return False
    if out == ABSENT:
        return False
    if inp == out:
        return True
    if inp[0] == "code" and out[0] in ("code", "str"):
        return norm_code(inp[1]) == norm_code(out[1])
    return False


def type_ok(inp, out, default=ABSENT, extra=()):
    """inp/out normalised type strings or None.  Present types must come back unchanged; an absent type may
    stay absent or become a placeholder: ``object`` or the type name of the default value."""
    if inp is not None:
        return out == inp
    if out is None or out == "object":
        return True
    if default != ABSENT and default[0] in ("int", "float", "str", "bool") and out == default[0]:
        return True
    return out in extra
