"""
Conversions between the IR and the seven artefact kinds, driven through doctrans' public emit/parse
functions, plus the site-producing comparison used by the round-trip family (C01-C05, C08).
"""
import ast
import copy

from mc import alphabets as al
from mc import core, refmodel as rm
from mc.core import site

DOC_KINDS = ("rest", "numpydoc", "google")
CODE_KINDS = ("class", "function", "method", "argparse")
KINDS = DOC_KINDS + CODE_KINDS

DEFAULT_OPTS = {"edd": True, "ww": True}


def emit_kind(kind, ir, opts=None):
    """IR -> text of the artefact (the IR object may be mutated by doctrans; pass a fresh one)."""
    from doctrans import emit
    from doctrans.source_transformer import to_code

    o = dict(DEFAULT_OPTS)
    o.update(opts or {})
    if kind in DOC_KINDS:
        return emit.docstring(ir, docstring_format=kind, word_wrap=o["ww"], emit_default_doc=o["edd"])
    if kind == "class":
        kw = {"emit_call": True} if o.get("call") else {}
        return to_code(emit.class_(ir, class_name="ConfigClass", word_wrap=o["ww"], emit_default_doc=o["edd"], **kw))
    if kind in ("function", "method"):
        ft = o.get("ft") or ("static" if kind == "function" else "self")
        kw = {}
        if "indent" in o:
            kw["indent_level"] = o["indent"]
        if "inline" in o:
            kw["inline_types"] = o["inline"]
        if "kwonly" in o:
            kw["emit_as_kwonlyargs"] = o["kwonly"]
        if "septab" in o:
            kw["emit_separating_tab"] = o["septab"]
        fn = "f"
        if o.get("ftnone"):  # name and type are taken from the IR (the documented Optional arguments)
            ir["name"], ir["type"], fn, ft = "f", ft, None, None
        return to_code(emit.function(ir, function_name=fn, function_type=ft, word_wrap=o["ww"],
                                     emit_default_doc=o["edd"], **kw))
    if kind == "argparse":
        kw = {"wrap_description": o["wrapdesc"]} if "wrapdesc" in o else {}
        return to_code(emit.argparse_function(ir, emit_default_doc=o["edd"], word_wrap=o["ww"], **kw))
    raise ValueError(kind)


def parse_kind(kind, text, opts=None):
    from doctrans import parse

    if kind in DOC_KINDS:
        if opts and "pedd" in opts:
            return parse.docstring(text, emit_default_doc=opts["pedd"])
        return parse.docstring(text)
    node = ast.parse(text).body[0]
    kw = {"infer_type": True} if (opts or {}).get("pinfer") else {}
    if kind == "class":
        return parse.class_(node, **kw)
    if kind in ("function", "method"):
        return parse.function(node, **kw)
    if kind == "argparse":
        return parse.argparse_ast(node)
    raise ValueError(kind)


def add_default_text(ir):
    """The IR as a parser run with default text on hands it over: the prose of every entry that has prose and a
    default also says 'Defaults to <value>' (strings quoted when the type is a string type).  Hand-written, in place."""
    for name, p in list(ir["params"].items()) + list((ir.get("returns") or {}).items()):
        if not p.get("doc") or "default" not in p or name.endswith("kwargs"):
            continue
        d = p["default"]
        if d == al.NONE_STR:
            shown = "None"
        elif isinstance(d, str) and not rm.is_code_quoted(d) and ("str" in (p.get("typ") or "") or "'" in (p.get("typ") or "")):
            shown = '"%s"' % d
        else:
            shown = d
        doc = p["doc"] if p["doc"][-1] in ".," else p["doc"] + "."
        p["doc"] = "%s Defaults to %s" % (doc, shown)


class StyleSpy(object):
    """Records the style argument of doctrans.docstring_parsers._scan_phase (harness-side spy)."""

    def __init__(self):
        import doctrans.docstring_parsers as dp

        self.dp = dp
        self.seen = []
        if not hasattr(dp._scan_phase, "_verif_orig"):
            orig = dp._scan_phase

            def spy(docstring, style=dp.Style.rest):
                StyleSpy.current.append(style.name)
                return orig(docstring, style=style)

            spy._verif_orig = orig
            dp._scan_phase = spy

    current = []

    def reset(self):
        del StyleSpy.current[:]

    def styles(self):
        return list(StyleSpy.current)


def case_facts(case, atoms, ret):
    summ = case["summary"]
    if not isinstance(summ, int):
        summ = "quote_edges" if summ.startswith("'") else "sweep%d" % len(summ)
    return {"shape": al.shape_code(atoms, ret, case["kwargs"]), "n": len(atoms), "kwargs": case["kwargs"], "summary": summ}


def ctx_facts(atoms, pos, ret, kwargs):
    prev = atoms[:pos]
    return {
        "ctx.pos": pos,
        "ctx.n": len(atoms),
        "ctx.prev_default": any(a[1] != al.ABSENT for a in prev),
        "ctx.prev_untyped": any(a[0] == al.ABSENT for a in prev),
        "ctx.prev_noprose": any(a[2] == al.ABSENT for a in prev),
        "ctx.ret": ret is not None,
        "ctx.kwargs": kwargs,
    }


def compare(base, atoms, ret, case, inp_ir, out_ir, policy):
    """Produce sites comparing projection of inp_ir with out_ir.

    policy: dict with
       absent_default: tuple for refmodel.default_ok absent_ok (params)
       check_default: bool (False when default text is off)
       type_extra: callable(param_in) -> extra accepted types for absent input type
    """
    sites = []
    pin, pout = rm.project(inp_ir), rm.project(out_ir)
    cf = dict(base, **case_facts(case, atoms, ret))
    # summary
    sites.append(site(pin["doc"] == pout["doc"], dict(cf, field="summary"), fail="summary", got=core.short(pout["doc"])))
    longest = max([len(ln) for ln in (inp_ir.get("doc") or "").splitlines()] or [0])
    if policy.get("summary_exact") and not (base.get("o.ww", True) and longest > 100):
        # (a summary line longer than the line width is re-filled by word wrap: only its words are an obligation then)
        # code kinds carry the summary verbatim (line breaks and indentation of a multi-line summary included)
        got = out_ir.get("doc") or ""
        sites.append(site(got == (inp_ir.get("doc") or ""), dict(cf, field="summary_layout"), fail="summary_layout", got=core.short(repr(got), 90)))
    names_in = [p[0] for p in pin["params"]]
    names_out = [p[0] for p in pout["params"]]
    sites.append(site(names_in == names_out, dict(cf, field="names"), fail="names", got=names_out))
    outd = {p[0]: p for p in pout["params"]}
    for pos, p in enumerate(pin["params"]):
        name, typ, doc, default = p
        is_kw = name == "kwargs"
        if is_kw:
            f = dict(base, role="kwargs", **ctx_facts(atoms, len(atoms), ret, True))
        else:
            f = dict(base, role="param", **al.atom_facts(atoms[pos]))
            f.update(ctx_facts(atoms, pos, ret, case["kwargs"]))
        if name not in outd:
            continue
        _, otyp, odoc, odef = outd[name]
        sites.append(site(rm.type_ok(typ, otyp, default, policy.get("type_extra", ())), dict(f, field="typ"),
                          fail="typ", got=otyp))
        sites.append(site(rm.prose_ok(doc, odoc), dict(f, field="doc"), fail="doc", got=odoc))
        sites += layout_site(rm.prose_ok(doc, odoc), out_ir["params"][name].get("doc"), dict(f, field="doc_layout"))
        ds = policy.get("default_sentence")
        if (ds == "stripped" or (ds == "stripped_if_edd_off" and base.get("o.edd") is False)) and rm.prose_ok(doc, odoc) and not is_kw:
            # this parser hands the default over as a value and removes its announcement from the prose
            left = rm.strip_default_sentence(odoc)[1] if odoc else False
            sites.append(site(not left, dict(f, field="doc_sentence"), fail="default_sentence_left_in_prose", got=core.short(odoc or "", 90)))
        if policy.get("check_default", True):
            absent_ok = policy.get("absent_default", ("absent",))
            if typ is not None and not typ.startswith("Optional[") and not is_kw:
                # None is a value of Optional[...] (and of an undeclared type) only: a declared non-Optional entry
                # without default may stay without one or take its zero value, it may not acquire None
                absent_ok = tuple(a for a in absent_ok if a != "none" or policy.get("none_for_any_type"))
            ok = rm.default_ok(default, odef, absent_ok,
                               typ if typ is not None else policy.get("zero_typ_fallback"))
            if is_kw and not ok:
                ok = odef in (rm.ABSENT, ("none",))
            sites.append(site(ok, dict(f, field="default"), fail="default", got=list(odef) if odef != rm.ABSENT else odef))
    # return entry
    rf = dict(base, role="return", **ctx_facts(atoms, len(atoms), ret, case["kwargs"]))
    if ret is not None:
        rf.update(al.atom_facts((ret[0], ret[2], ret[1])))
    rin, rout = pin["ret"], pout["ret"]
    if policy.get("ret_only_with_default") and (rin is None or rin[2] == rm.ABSENT):
        pass  # this kind only promises to carry a return entry that has a default
    elif rin is None:
        sites.append(site(rout is None, dict(rf, field="ret.present"), fail="return_invented", got=rout))
    elif rout is None:
        sites.append(site(False, dict(rf, field="ret.present"), fail="return_lost"))
    else:
        sites.append(site(rm.type_ok(rin[0], rout[0], rin[2], policy.get("ret_type_extra", ())), dict(rf, field="ret.typ"),
                          fail="typ", got=rout[0]))
        sites.append(site(rm.prose_ok(rin[1], rout[1]), dict(rf, field="ret.doc"), fail="doc", got=rout[1]))
        sites += layout_site(rm.prose_ok(rin[1], rout[1]), ((out_ir.get("returns") or {}).get("return_type") or {}).get("doc"),
                             dict(rf, field="ret.doc_layout"))
        if policy.get("check_default", True) and policy.get("check_ret_default", True):
            sites.append(site(rm.default_ok(rin[2], rout[2], policy.get("ret_absent_default", ("absent",)), rin[0]),
                              dict(rf, field="ret.default"), fail="default",
                              got=list(rout[2]) if rout[2] != rm.ABSENT else rout[2]))
    return sites


def layout_site(words_ok, raw, facts):
    """The prose alphabets are single-line texts with single blanks: prose that comes back with the right words but
    with line breaks or runs of blanks inside has been altered (only judged when the words themselves are right)."""
    if not words_ok or not isinstance(raw, str):
        return []
    body = raw.strip()
    bad = "\n" in body or "  " in body or "\t" in body
    return [site(not bad, facts, fail="whitespace_inserted", got=core.short(repr(body), 90))]


# ----------------------------------------------------------------------------- generic round-trip check
class OptSpace(core.Space):
    """IR space x list of option dicts (options vary fastest)."""

    def __init__(self, irs, opts, flt=None):
        self.irs, self.opts = irs, opts

    def __len__(self):
        return len(self.irs) * len(self.opts)

    def __getitem__(self, i):
        j, o = divmod(i, len(self.opts))
        c = dict(self.irs[j])
        c["opts"] = self.opts[o]
        return c

    def describe(self):
        return {"irs": self.irs.describe(), "option_combinations": len(self.opts), "options": self.opts[:40],
                "size": len(self)}


class Filtered(core.Space):
    """Sub-space of the cases satisfying a predicate (materialised index list; order preserved)."""

    def __init__(self, base, pred, note):
        self.base, self.note = base, note
        self.idx = [i for i in range(len(base)) if pred(base[i])]

    def __len__(self):
        return len(self.idx)

    def __getitem__(self, i):
        return self.base[self.idx[i]]

    def describe(self):
        d = dict(self.base.describe())
        d["filter"] = self.note
        d["size_after_filter"] = len(self.idx)
        return d


class RoundTrip(core.Check):
    """emit_kind -> parse_kind -> compare, for one code kind with an option list."""

    kind = None
    policy = {}

    def option_list(self):
        raise NotImplementedError

    def ir_filter(self):
        return None

    def space(self):
        irs = al.ir_space(self.tier)
        flt = self.ir_filter()
        if flt is not None:
            irs = Filtered(irs, flt[0], flt[1])
        return OptSpace(irs, self.option_list())

    def base_facts(self, opts):
        return dict(("o." + k, v) for k, v in sorted(opts.items()))

    def extra_sites(self, case, atoms, ret, text, back, base):
        return []

    def run_case(self, case):
        atoms, ret, ir = al.case_ir(case)
        opts = case["opts"]
        kind = opts.get("kind", self.kind)
        base = self.base_facts(opts)
        cf = dict(base, **case_facts(case, atoms, ret))
        if opts.get("ddoc"):
            add_default_text(ir)
        try:
            text = emit_kind(kind, ir, opts)
        except Exception as e:
            return [site(False, dict(cf, field="emit"), fail="emit_raise", **core.exc_obs(e))], None, "emit-raise"
        nontrivial = text if (atoms or ret is not None or case["kwargs"]) else None
        try:
            back = parse_kind(kind, text, opts)
        except Exception as e:
            return [site(False, dict(cf, field="parse"), fail="parse_raise", **core.exc_obs(e))], nontrivial, "parse-raise"
        sites = [site(True, dict(cf, field="parse"))]
        _, _, ir0 = al.case_ir(case)
        policy = self.policy
        if opts.get("septab") or opts.get("wrapdesc"):
            # these two options re-lay-out the description by design (extra indentation / re-filled text): only its words
            # are an obligation then
            policy = dict(policy, summary_exact=False)
        sites += compare(base, atoms, ret, case, ir0, back, policy)
        sites += self.extra_sites(case, atoms, ret, text, back, dict(cf))
        return sites, nontrivial, [text, [s["ok"] for s in sites]]
