"""Setup / self-test: byte-compile nothing (we run with -B), check the toolchain and the harness itself."""
import json
import os
import subprocess
import sys

from mc import boot, core


def main():
    boot.boot(need_cli=True)
    import doctrans  # noqa
    import doctrans.conformance  # noqa: the meta shim must make this importable
    import doctrans.__main__  # noqa

    # pattern matcher / hashing sanity
    assert core.match_pattern({"a": 1, "obs.x": ["p", "q"]}, {"a": 1}, {"obs.x": "q"})
    assert not core.match_pattern({"a": True}, {"a": 1}, {})
    assert core.group_hash({"a": 1}, {"obs.msg": "x"}) == core.group_hash({"a": 1}, {"obs.msg": "y"})
    sp = core.Product(x=[1, 2], y=["a", "b", "c"])
    assert len(sp) == 6 and sp[0] == {"x": 1, "y": "a"} and sp[5] == {"x": 2, "y": "c"}
    # known findings file is well formed and every extension belongs to a listed finding
    with open(os.path.join(core.HOME, "known_findings.json")) as f:
        kf = json.load(f)
    ids = set(e["id"] for e in kf["findings"])
    kdir = os.path.join(core.HOME, "known")
    for fn in sorted(os.listdir(kdir)) if os.path.isdir(kdir) else []:
        with open(os.path.join(kdir, fn)) as f:
            ext = json.load(f)
        for fid in ext["groups"]:
            assert fid in ids, "extension %s names unknown finding %s" % (fn, fid)
    # model tools present?
    for tool in ("tlc",):
        if subprocess.call(["which", tool], stdout=subprocess.DEVNULL) != 0:
            print("warning: %s not on PATH" % tool)
    print("selftest ok: doctrans %s from %s" % (doctrans.__version__, os.path.dirname(doctrans.__file__)))
    return 0


if __name__ == "__main__":
    sys.exit(main())
