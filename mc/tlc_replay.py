"""
Run TLC on models/SyncProtocol.tla, parse the dumped state graph (dot, action labels) and expose every
transition so that the conformance harness can replay it against the implementation.
"""
import os
import re
import shutil
import subprocess
import tempfile

from mc import core

MODEL_DIR = os.path.join(core.HOME, "models")

_NODE = re.compile(r'^(-?\d+) \[label="(.*?)"(?:,style = filled)?\]\s*;?$')
_EDGE = re.compile(r'^(-?\d+) -> (-?\d+) \[label="(.*?)",color')
_FN = re.compile(r'(\w+) = \[(.*?)\]')
_ACTION = re.compile(r'^(Sync|Edit)\("([CFA])",\s*(.*)\)$')

KIND_OF = {"C": "class", "F": "function", "A": "argparse_function"}


def parse_label(label):
    label = label.replace('\\"', '"').replace("\\n", "\n").replace("\\\\", "\\")
    out = {}
    for ln in label.splitlines():
        ln = ln.strip().lstrip("/\\").strip()
        m = _FN.match(ln)
        if m:
            d = {}
            for part in m.group(2).split(","):
                k, v = part.split("|->")
                v = v.strip().strip('"')
                d[k.strip()] = {"TRUE": True, "FALSE": False}.get(v, v)
            out[m.group(1)] = d
        elif "=" in ln:
            k, v = ln.split("=", 1)
            out[k.strip()] = {"TRUE": True, "FALSE": False}.get(v.strip(), v.strip())
    return out


def parse_action(name):
    name = name.replace('\\"', '"')
    m = _ACTION.match(name)
    if not m:
        raise ValueError("unrecognised action label %r" % name)
    kind, t, rest = m.groups()
    if kind == "Sync":
        return {"kind": "Sync", "truth": t, "targets": sorted(re.findall(r'"([CFA])"', rest))}
    return {"kind": "Edit", "file": t, "version": rest.strip().strip('"')}


def run_tlc():
    """Returns (states dict id->parsed label, edges list (src, dst, action name), tlc summary line, stdout)."""
    tmp = tempfile.mkdtemp(prefix="tlc_")
    try:
        for fn in ("SyncProtocol.tla", "SyncProtocol.cfg"):
            shutil.copy(os.path.join(MODEL_DIR, fn), tmp)
        dump = os.path.join(tmp, "graph")
        r = subprocess.run(["tlc", "-workers", "1", "-noGenerateSpecTE", "-metadir", os.path.join(tmp, "meta"), "-deadlock",
                            "-dump", "dot,actionlabels", dump, "SyncProtocol"], cwd=tmp, stdout=subprocess.PIPE,
                           stderr=subprocess.STDOUT, text=True)
        out = r.stdout
        if "No error has been found" not in out:
            raise RuntimeError("TLC did not verify the model:\n" + out[-2000:])
        summary = next((ln for ln in out.splitlines() if "distinct states found" in ln), "")
        states, edges = {}, []
        with open(dump + ".dot") as f:
            for ln in f:
                ln = ln.strip()
                m = _EDGE.match(ln)
                if m:
                    edges.append((m.group(1), m.group(2), m.group(3)))
                    continue
                m = _NODE.match(ln)
                if m:
                    states[m.group(1)] = parse_label(m.group(2))
        return states, edges, summary.strip(), out
    finally:
        shutil.rmtree(tmp, ignore_errors=True)
