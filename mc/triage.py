"""Developer utility: cluster the failing groups of a VERIF_DUMP file.
usage: python -m mc.triage dump.json key1,key2,...   [filter k=v ...]"""
import json
import sys
from collections import Counter, defaultdict


def main():
    d = json.load(open(sys.argv[1]))
    keys = sys.argv[2].split(",") if len(sys.argv) > 2 and sys.argv[2] else []
    filt = dict(a.split("=", 1) for a in sys.argv[3:])
    def get(fa, ob, k):
        return ob.get(k, fa.get(k, "<absent>"))
    def ok(fa, ob):
        return all(str(get(fa, ob, k)) == v for k, v in filt.items())
    c = Counter(); ex = {}
    for cnt, idx, fa, ob in d["fail"]:
        if not ok(fa, ob):
            continue
        k = tuple(str(get(fa, ob, x)) for x in keys)
        c[k] += cnt
        if k not in ex or idx < ex[k][0]:
            ex[k] = (idx, fa, ob)
    pc = Counter()
    for fa, cnt in d["pass"]:
        if all(str(fa.get(k, "<absent>")) == v for k, v in filt.items() if not k.startswith("obs.")):
            pc[tuple(str(fa.get(x, "<absent>")) for x in keys if not x.startswith("obs."))] += cnt
    for k, n in sorted(c.items(), key=lambda kv: -kv[1]):
        pk = tuple(v for x, v in zip(keys, k) if not x.startswith("obs."))
        print(n, "fail |", pc.get(pk, 0), "pass |", dict(zip(keys, k)), "| ex idx", ex[k][0])
    print("total fail sites", sum(c.values()), "groups", len(c))


if __name__ == "__main__":
    main()
