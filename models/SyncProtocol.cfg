SPECIFICATION Spec
INVARIANT TypeOK
INVARIANT ReportTruthful
PROPERTY AllSyncProps
