--------------------------- MODULE SyncProtocol ---------------------------
(***************************************************************************)
(* Specification of `doctrans sync`, written from the statements of        *)
(* properties C09 and C10 - not from the code.                              *)
(*                                                                           *)
(* Three files, one per kind: C (class), F (function), A (argparse          *)
(* function).  A file is Missing, Empty, holds no definition of the         *)
(* requested name (NoDef), or holds a definition that describes interface   *)
(* version v1 or v2 (D1, D2).                                                *)
(*                                                                           *)
(* Sync(t, S): truth kind t, target set S (t \in S, |S| >= 2).  If the      *)
(* truth file holds a definition, every other file of S afterwards          *)
(* describes the truth's version; the truth file and files outside S are    *)
(* unchanged; report[f] is TRUE exactly for the files whose content         *)
(* changed.  If the truth file holds no definition the invocation is        *)
(* rejected and nothing changes.                                             *)
(* Edit(t, v): the user rewrites file t so that it describes version v.     *)
(*                                                                           *)
(* Every action is a separately named definition so that TLC's              *)
(* `-dump dot,actionlabels` output carries the parameters on each edge.     *)
(***************************************************************************)
EXTENDS Naturals, FiniteSets

Files == {"C", "F", "A"}
Vals  == {"Missing", "Empty", "NoDef", "D1", "D2"}
Defs  == {"D1", "D2"}

VARIABLES st, report, rejected

vars == <<st, report, rejected>>

TypeOK == /\ st \in [Files -> Vals]
          /\ report \in [Files -> BOOLEAN]
          /\ rejected \in BOOLEAN

Init == /\ st \in [Files -> Vals]
        /\ report = [f \in Files |-> FALSE]
        /\ rejected = FALSE

Sync(t, S) ==
    IF st[t] \in Defs
    THEN /\ st' = [f \in Files |-> IF f \in S /\ f # t THEN st[t] ELSE st[f]]
         /\ report' = [f \in Files |-> f \in S /\ f # t /\ st[f] # st[t]]
         /\ rejected' = FALSE
    ELSE /\ st' = st
         /\ report' = [f \in Files |-> FALSE]
         /\ rejected' = TRUE

Edit(t, v) == /\ st' = [st EXCEPT ![t] = v]
              /\ report' = [f \in Files |-> FALSE]
              /\ rejected' = FALSE

SyncC_CF  == Sync("C", {"C", "F"})
SyncC_CA  == Sync("C", {"C", "A"})
SyncC_CFA == Sync("C", {"C", "F", "A"})
SyncF_CF  == Sync("F", {"C", "F"})
SyncF_FA  == Sync("F", {"F", "A"})
SyncF_CFA == Sync("F", {"C", "F", "A"})
SyncA_CA  == Sync("A", {"C", "A"})
SyncA_FA  == Sync("A", {"F", "A"})
SyncA_CFA == Sync("A", {"C", "F", "A"})
EditC_1 == Edit("C", "D1")
EditC_2 == Edit("C", "D2")
EditF_1 == Edit("F", "D1")
EditF_2 == Edit("F", "D2")
EditA_1 == Edit("A", "D1")
EditA_2 == Edit("A", "D2")

Next == \/ SyncC_CF \/ SyncC_CA \/ SyncC_CFA
        \/ SyncF_CF \/ SyncF_FA \/ SyncF_CFA
        \/ SyncA_CA \/ SyncA_FA \/ SyncA_CFA
        \/ EditC_1 \/ EditC_2 \/ EditF_1 \/ EditF_2 \/ EditA_1 \/ EditA_2

Spec == Init /\ [][Next]_vars

(***************************************************************************)
(* Properties of the model itself (checked by TLC before the model is used *)
(* as the reference for the implementation).                                *)
(***************************************************************************)

\* the report is truthful and a rejected sync reports nothing
ReportTruthful == rejected => \A f \in Files : ~report[f]

\* C09: after an accepted Sync(t, S) every file of S agrees with the truth
AgreeAfter(t, S) == (st[t] \in Defs) => \A f \in S : st'[f] = st[t]
\* C10: the truth file is never modified and a second identical sync changes nothing
TruthUntouched(t, S) == st'[t] = st[t]
StutterSecond(t, S) ==
    LET once == [f \in Files |-> IF st[t] \in Defs /\ f \in S /\ f # t THEN st[t] ELSE st[f]]
        twice == [f \in Files |-> IF once[t] \in Defs /\ f \in S /\ f # t THEN once[t] ELSE once[f]]
    IN once = twice

SyncProps(t, S) == [][Sync(t, S) => (AgreeAfter(t, S) /\ TruthUntouched(t, S) /\ StutterSecond(t, S)
                                     /\ \A f \in Files : report'[f] <=> (st'[f] # st[f]))]_vars

AllSyncProps == /\ SyncProps("C", {"C", "F"}) /\ SyncProps("C", {"C", "A"}) /\ SyncProps("C", {"C", "F", "A"})
                /\ SyncProps("F", {"C", "F"}) /\ SyncProps("F", {"F", "A"}) /\ SyncProps("F", {"C", "F", "A"})
                /\ SyncProps("A", {"C", "A"}) /\ SyncProps("A", {"F", "A"}) /\ SyncProps("A", {"C", "F", "A"})
=============================================================================
