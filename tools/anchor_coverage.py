#!/venv/bin/python
"""
Developer tool (not a check): which lines of the code regions a property is *anchored* in does its check execute?

    tools/anchor_coverage.py C07 [--tier quick] [--budget 60] [--max-cases 4000]

Runs a strided sample of the check's own case space in this process under coverage.py (line coverage of
/repo/doctrans only) and reports, per anchor of properties.jsonl, the executable lines that were never executed.
Anchor line numbers refer to the pinned commit; they are mapped to the current files with difflib.
The sample only serves to *measure reach* - it decides nothing about the property.
"""
import argparse
import difflib
import importlib
import json
import os
import re
import subprocess
import sys
import time

HOME = os.path.dirname(os.path.dirname(os.path.abspath(__file__)))
sys.path.insert(0, HOME)
PINNED = "811f35f"


def line_map(path):
    """pinned line number -> current line number (None when the line was rewritten)."""
    old = subprocess.run(["git", "-C", "/repo", "show", "%s:%s" % (PINNED, path)], capture_output=True, text=True).stdout.splitlines()
    new = open(os.path.join("/repo", path)).read().splitlines()
    m = {}
    for tag, i1, i2, j1, j2 in difflib.SequenceMatcher(None, old, new, autojunk=False).get_opcodes():
        if tag == "equal":
            for k in range(i2 - i1):
                m[i1 + k + 1] = j1 + k + 1
        elif tag == "replace":
            for k in range(i2 - i1):
                m[i1 + k + 1] = min(j1 + k, j2 - 1) + 1
    return m


def parse_where(where):
    out = []
    for part in re.split(r";\s*", where):
        mm = re.match(r"(doctrans/[\w/]+\.py)(?::([\d,\-]+))?", part.strip())
        if not mm:
            continue
        path, ranges = mm.group(1), mm.group(2)
        if not ranges:
            out.append((path, None, None))
            continue
        for r in ranges.split(","):
            lo, _, hi = r.partition("-")
            out.append((path, int(lo), int(hi or lo)))
    return out


def main():
    ap = argparse.ArgumentParser()
    ap.add_argument("prop")
    ap.add_argument("--tier", default="quick")
    ap.add_argument("--budget", type=float, default=60.0)
    ap.add_argument("--max-cases", type=int, default=4000)
    a = ap.parse_args()
    pid = a.prop.upper()
    os.environ.setdefault("PYTHONHASHSEED", "0")
    import coverage

    from mc import boot

    cov = coverage.Coverage(source=["/repo/doctrans"], data_file=None, branch=False)
    cov.start()
    boot.boot(need_cli=True)
    mod = importlib.import_module("mc.props.%s" % pid.lower())
    chk = mod.CHECK(tier=a.tier) if "tier" in mod.CHECK.__init__.__code__.co_varnames else mod.CHECK()
    chk.tier = a.tier
    sp = chk.space()
    n = len(sp)
    stride = max(1, n // a.max_cases)
    t0 = time.time()
    ran = 0
    # two passes with different offsets so that a time budget still spreads over the whole space
    for off in (0, stride // 2):
        for i in range(off, n, stride):
            if time.time() - t0 > a.budget:
                break
            try:
                chk.run_case(sp[i])
            except Exception as e:  # harness errors are not the point here
                print("case %d raised %s" % (i, type(e).__name__))
            ran += 1
        if stride == 1:
            break
    cov.stop()
    print("%s %s: %d of %d cases run in %.0fs" % (pid, a.tier, ran, n, time.time() - t0))
    prop = next(json.loads(l) for l in open(os.path.join(HOME, "properties.jsonl")) if json.loads(l)["id"] == pid)
    maps = {}
    for mech in prop["anchors"].get("mechanism", []):
        for path, lo, hi in parse_where(mech["where"]):
            full = os.path.join("/repo", path)
            try:
                _, executable, _, missing, _ = cov.analysis2(full)
            except Exception as e:
                print("  %-60s %s: no data (%s)" % (mech["name"][:60], path, type(e).__name__))
                continue
            if lo is None:
                rng = set(executable)
                label = path
            else:
                if path not in maps:
                    maps[path] = line_map(path)
                cur = [maps[path].get(k) for k in range(lo, hi + 1)]
                cur = [c for c in cur if c]
                if not cur:
                    continue
                rng = set(range(min(cur), max(cur) + 1))
                label = "%s:%d-%d (now %d-%d)" % (path, lo, hi, min(cur), max(cur))
            ex = sorted(rng & set(executable))
            ms = sorted(rng & set(missing))
            print("  %-62s %-52s %3d/%3d executable lines run" % (mech["name"][:62], label, len(ex) - len(ms), len(ex)))
            if ms:
                src = open(full).read().splitlines()
                # group consecutive missing lines
                groups, cur = [], [ms[0]]
                for x in ms[1:]:
                    if x == cur[-1] + 1:
                        cur.append(x)
                    else:
                        groups.append(cur)
                        cur = [x]
                groups.append(cur)
                for g in groups[:14]:
                    print("        not run %d-%d: %s" % (g[0], g[-1], src[g[0] - 1].strip()[:100]))


if __name__ == "__main__":
    main()
