#!/bin/bash
# usage: tools/batch_mutants.sh <mutant root dir (contains m1, m2, ...)> <tier> <PID> [PID...]
ROOT="$1"; TIER="$2"; shift 2
for M in "$ROOT"/m*; do
  [ -f "$M/patch.diff" ] || continue
  OUT=$(/verif/tools/try_mutant.sh "$M" "$TIER" "$@" 2>&1)
  SUITE=$(echo "$OUT" | grep -m1 "baseline stable" | sed 's/baseline stable tests passing: //')
  DEMO=$(echo "$OUT" | grep -A1 -m1 "demo with patch" | tail -1)
  NODEMO=$(echo "$OUT" | grep -A1 "demo without patch" | tail -1)
  echo "== $M suite=$SUITE demo_with=$DEMO demo_without=$NODEMO"
  echo "$OUT" | grep -A2 "^--- check" | grep -v "^--$" | paste - - - | sed 's/^/     /'
  echo "$OUT" | grep -m1 "PATCH DOES NOT APPLY"
done
