#!/usr/bin/env python3
"""Regenerate MANIFEST.json from the table below (keeps it valid at all times)."""
import json
import os

HERE = os.path.dirname(os.path.dirname(os.path.abspath(__file__)))

E1 = "bounded-exhaustive enumeration of an explicit finite input space against a reference model (no sampling)"

CHECKS = {
    "C17": dict(level="exploration", engine="E1", design="5/C17",
                technique="bounded-exhaustive input-space enumeration (every prose x value x type x phrase x removal tuple)",
                text="Every tuple of the stated prose/value/type/phrase/removal alphabets is pushed through the real "
                     "set_default_doc -> extract_default / interpolate_defaults codec and compared with the value that "
                     "went in (value and Python type) and the prose that surrounded it; the space is enumerated "
                     "completely, so within the alphabets there is no unvisited input.",
                note="Trusted: CPython ast/str semantics. Domain restrictions for bare (unquoted) strings are listed in "
                     "the evidence assumptions. Bounded by the alphabets (thorough: all ints in [-20,20], a float grid, "
                     "all strings of length <=3 over 8 characters)."),
}

PENDING = {}

ALL = ["C%02d" % i for i in range(1, 21)]


def main():
    checks = []
    for pid in ALL:
        if pid not in CHECKS:
            continue
        c = CHECKS[pid]
        checks.append({
            "property_id": pid,
            "quick_cmd": "./vcheck %s --tier quick" % pid,
            "thorough_cmd": "./vcheck %s --tier thorough" % pid,
            "evidence_file": "/verif/evidence/%s.json" % pid,
            "replay_cmd_template": "./vcheck %s --replay {path}" % pid,
            "engine": c["engine"],
            "level_claimed": {"category": c["level"], "text": c["text"], "design_ref": "DESIGN.md section " + c["design"]},
            "level_note": c["note"],
            "technique": c["technique"],
        })
    na = [{"property_id": pid, "reason": PENDING.get(pid, "check not built yet in this revision of /verif (work in progress; see DESIGN.md section 10)")}
          for pid in ALL if pid not in CHECKS]
    man = {
        "version": 1,
        "setup_cmd": "./vcheck selftest",
        "hooks": {
            "guard": "DOCTRANS_VERIF",
            "enable": "no source hooks: doctrans is pure Python and is imported from /repo's working tree by every check; "
                      "instrumentation is harness-side (module-attribute spies, builtins.open wrapper). DOCTRANS_VERIF=1 is "
                      "exported by ./vcheck but nothing in /repo reads it.",
            "baseline_off_cmd": "cd /repo && /venv/bin/python -m pytest -ra -q -p no:cacheprovider --timeout=900 --continue-on-collection-errors",
            "source_commits": [],
            "add_only": True,
        },
        "engines": [
            {"name": "E1", "path": "mc/core.py", "kind_free_text": E1,
             "serves_properties": [p for p in ALL if CHECKS.get(p, {}).get("engine") == "E1"]},
            {"name": "E2", "path": "mc/graph.py", "kind_free_text": "explicit-state BFS to closure over the real transition functions (conversion / project-file / shared-object graphs)",
             "serves_properties": [p for p in ALL if CHECKS.get(p, {}).get("engine") == "E2"]},
            {"name": "E3", "path": "models/SyncProtocol.tla + mc/tlc_replay.py", "kind_free_text": "TLC explicit-state model of sync; every model transition replayed against the implementation",
             "serves_properties": [p for p in ALL if CHECKS.get(p, {}).get("engine") == "E3"]},
            {"name": "E4", "path": "mc/faults.py", "kind_free_text": "exhaustive fault / crash-point enumeration over the write path (builtins.open wrapper)",
             "serves_properties": [p for p in ALL if CHECKS.get(p, {}).get("engine") == "E4"]},
            {"name": "E5", "path": "mc/sweeps.py", "kind_free_text": "configuration sweep in fresh interpreters (hash seeds covering all k! set orders, DOCTRANS_LINE_LENGTH range)",
             "serves_properties": [p for p in ALL if CHECKS.get(p, {}).get("engine") == "E5"]},
        ],
        "checks": checks,
        "not_applicable": na,
        "notes": "Known genuine defects are listed in known_findings.json with exact extensions in known/<id>.json; fix: commits in /repo are listed there under 'fixed'.",
    }
    with open(os.path.join(HERE, "MANIFEST.json"), "w") as f:
        json.dump(man, f, indent=1)
    print("MANIFEST.json: %d checks, %d not claimed" % (len(checks), len(na)))


if __name__ == "__main__":
    main()
