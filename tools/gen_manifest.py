#!/usr/bin/env python3
"""Regenerate MANIFEST.json from the table below (keeps it valid at all times)."""
import json
import os

HERE = os.path.dirname(os.path.dirname(os.path.abspath(__file__)))

E1 = "bounded-exhaustive enumeration of an explicit finite input space against a reference model (no sampling)"

RT_NOTE = ("Trusted: CPython (ast, compile, inspect, argparse), black. Bounded by the alphabets of DESIGN.md section 4 "
           "(<=3 parameters, 17 types + the collision / sweep atoms, 8 prose forms incl. a 150-character one and length sweeps "
           "of 60..260 characters, the listed defaults); "
           "oracles are acceptance sets fixed in mc/refmodel.py. Known genuine defects are matched by exact "
           "(site facts, observation) hash, see known_findings.json.")


def rt(design, what, space, extra=""):
    return dict(level="exploration", engine="E1", design=design,
                technique="bounded-exhaustive input-space enumeration against an independent reference model",
                text="Every interface description of the bounded space (%s) is pushed through the real doctrans functions "
                     "(%s) for every listed option combination and compared field by field with the reference projection "
                     "of the input; the space is enumerated completely (sharded by index over 16 workers), so within the "
                     "bounds no input is left unvisited.%s" % (space, what, extra),
                note=RT_NOTE)


SPACE = ("S_A: all <=1-parameter IRs over the full atom alphabet (488 atoms) x 9 return entries x kwargs x 3 summaries; S_B: all "
         "parameter sequences of length 2..3 over 13 representative atoms x 3 returns x kwargs; S_D: all ordered pairs (thorough: "
         "triples) over 13 atoms whose values collide across types (0 / False / 0.0, 1 / True / 1.0, '', Literal types with falsy, "
         "negative or digit-like members, a typed entry without prose and default); S_W: length sweeps of parameter prose, return "
         "prose and a summary line (a wrap point moves across every position) and quote-edged texts")

CHECKS = {
    "C01": rt("5/C01", "emit.docstring -> parse.docstring, with a spy on the style the parser chose", SPACE),
    "C02": rt("5/C02", "emit.class_ -> to_code -> ast.parse -> parse.class_", SPACE),
    "C03": rt("5/C03", "emit.function -> to_code -> ast.parse -> parse.function", SPACE,
              " Options: function type x inline types x keyword-only x docstring indent, plus emit_separating_tab and the call form "
              "that takes name and type from the IR."),
    "C04": rt("5/C04", "emit.argparse_function -> to_code -> ast.parse -> parse.argparse_ast", SPACE + " (argparse-expressible part)",
              " Options: default text x word wrap, wrap_description, and IRs whose prose already carries the default sentence."),
    "C05": dict(level="model_checking", engine="E2", design="5/C05",
                technique="explicit-state exploration of the conversion graph on the implementation (all chains of distinct kinds up to depth 3 / 4)",
                text="For every IR of S_C (parameter sequences of length 0..2 over 16 atoms x 3 returns x kwargs) and each of the 7 "
                     "start kinds, every chain of distinct kinds up to length 3 (thorough: 4) is executed on the real "
                     "emit/parse functions with conversions memoised per (kind, text, target); each path node - a state "
                     "(kind, text) - is parsed and compared with the original description under the normalisations "
                     "accumulated along the chain. All 42 ordered pairs and 210 length-3 chains are covered for every IR; chains that "
                     "start from hand-written source (6 interface versions x 3 kinds) and a second option set per kind (types in the "
                     "docstring, positional parameters, default text on, wrap off) over the IRs with <=1 (thorough <=2) parameters "
                     "are explored the same way.",
                note=RT_NOTE + " There is no separate model: every transition is an execution of the implementation."),
    "C06": rt("5/C06", "emit.class_ / emit.function / emit.argparse_function, then compile, unparse/re-parse, emit.file with and "
                       "without black, exec, inspect.signature, class __dict__/__annotations__, a real ArgumentParser", SPACE,
              " The oracle is the Python interpreter, never doctrans' own parsers."),
    "C07": dict(level="exploration", engine="E1", design="5/C07",
                technique="bounded-exhaustive enumeration of generated definitions judged by inspect.signature, plus a hash-seed sweep in fresh interpreters",
                text="Every definition of the generated family (signature shapes with <=3 positional, <=2 keyword-only parameters and "
                     "**kwargs, total <=3 quick / <=4 thorough; annotations all / none / alternating; a docstring per style that "
                     "documents every subset of the parameters in signature or reversed order, optionally stating defaults that "
                     "conflict with the signature; as function, self method, cls method, class + __init__ - also with a nested helper "
                     "class that has its own __init__, and inside a module searched by class name - and as live objects imported from "
                     "a module file) is parsed by doctrans and compared with inspect.signature of the exec'ed definition. The partially documented ones are "
                     "re-parsed in fresh interpreters under further PYTHONHASHSEED values and must give the same order.",
                note="Trusted: CPython exec / inspect / import system. Bounded by the generator (names s,b,e,z1,k2,kwargs; fixed "
                     "annotation and default values per name)."),
    "C08": rt("5/C08", "emit, then (parse, emit) repeatedly for each of the 7 kinds", SPACE,
              " Obligation: the texts of pass 2 and pass 3 (thorough: up to pass 5) are byte-identical; plus the cross-kind part: "
              "emit_K2(parse_K1(emit_K1(ir))) must be a fixed point of emit_K2 . parse_K2 after one pass, for every ordered pair of kinds."),
    "C09": dict(level="model_checking", engine="E3", design="5/C09",
                technique="TLC explicit-state model of sync (TLA+) with every model transition and every model path of length 2 (thorough 3) replayed against the implementation, plus bounded-exhaustive product enumeration",
                text="models/SyncProtocol.tla specifies sync over 3 files x 5 abstract contents (written from the property text). TLC "
                     "checks the model's own invariants and dumps the complete state graph (302 states, 4530 transitions); every Sync "
                     "transition with a distinct (abstract pre-state, action) - 1125 - is replayed on real files through "
                     "ground_truth: hand-written templates concretise the pre-state, an ast-based extractor that never calls doctrans "
                     "abstracts the result, which must equal the model's successor (state, report, accepted/rejected). Whole paths of "
                     "the graph are replayed too - accepted Sync ; Sync from each of the 125 initial states (4050 paths; thorough: "
                     "Sync ; any action ; Sync, 60750 paths) - with the state carried by the files the implementation itself "
                     "produced and the abstraction compared with the model state after every step. In addition the "
                     "product truth kind x target subset x 6 pre-states per target x function/method x interface version x API/CLI "
                     "and invocations with a second file of the truth's kind, with one kind only and several files, with a target of "
                     "another kind inside the truth's file, and with six textual surroundings of the target (unterminated / "
                     "indentation-only last line, the name as a string or aliased import before the definition, a column-aligned "
                     "module docstring) are enumerated exhaustively.",
                note="Trusted: TLC, the gamma templates and the alpha extractor (mc/project.py). The model abstracts file contents to "
                     "{Missing, Empty, NoDef, version 1, version 2}; interfaces are the 6 versions of mc/project.py."),
    "C10": dict(level="model_checking", engine="E2", design="5/C10",
                technique="explicit-state BFS over the byte-level project graph on the implementation (states = file bytes, events = sync / edit-truth)",
                text="From each of 406 concrete start states (216: every combination of missing / empty / no definition / version 1 / "
                     "version 2 / helper function + version 1 per file; 14 with function and argparse function in one file; 20 with a "
                     "method target; 72 with textual surroundings; 20 where a second file of the truth's kind is shared with another "
                     "kind; 54 with paths spelled ~/file; 10 with a dotted method name spelled with blanks) all 9 sync events and 6 edit events are applied with the real "
                     "ground_truth, breadth-first, states being exact byte snapshots, to depth 2 (thorough 4). On every sync "
                     "transition the identical sync is run again and must be a self-loop; the truth file must be byte-identical; the "
                     "returned report and the printed modified/unchanged lines must match the byte changes; a rejected sync must "
                     "change nothing.",
                note="The graph does not close under edit events (each edit opens new combinations), so a depth cap is used and the "
                     "number of frontier states left at the cap is reported in the evidence."),
    "C11": dict(level="exploration", engine="E1", design="5/C11",
                technique="bounded-exhaustive enumeration of target modules around the synchronised definition, compared statement by statement via ast.dump",
                text="Every target module of the generated family (prefix and suffix of 0..1 items quick / 0..2 thorough from 13 item "
                     "templates incl. same-named methods, nested same-named classes, positional-only / *args functions, decorated and "
                     "async functions, walrus / try blocks, __all__ / forward-reference strings, a triple-quoted constant with blank "
                     "lines, a re-binding of the target's name; definition absent / stale / agreeing; last line terminated / "
                     "unterminated / indentation only; module docstrings; three target kinds; a file that is the target of two kinds; "
                     "a nested class target with a top-level namesake; method targets with sibling members) is synchronised with the real ground_truth and every "
                     "statement other than the named definition must have an identical ast.dump, in order; the file must parse; at "
                     "most one definition of the name may exist; extra body statements must survive.",
                note="Trusted: CPython ast. The truth is a hand-written definition of another kind."),
    "C12": dict(level="exploration", engine="E5", design="5/C12",
                technique="configuration sweep over hash seeds chosen to cover all k! set-iteration orders, plus exhaustive call-sequence enumeration in forked pristine processes",
                text="(a) a battery of ~80 conversions (partially documented functions with 2..4 undocumented parameters, class + "
                     "__init__ merges, every emitter and parser, gen) runs in one fresh interpreter per PYTHONHASHSEED; seeds are "
                     "added until every permutation of the relevant name-set iteration order has been witnessed (k<=3 quick, k<=4 "
                     "thorough; >=64 / >=256 seeds) plus random seeds; all digests must equal seed 0's. (b) every sequence with "
                     "repetition over 19 conversions up to length 2 (thorough 3), of length 3 (4) over the 7 core conversions, and "
                     "every ordered pair of the 24 twin-family conversions (two interfaces sharing every name and type name, each as "
                     "parse and emit input in six kinds) runs in a child forked from a pristine post-import process and each "
                     "call's output must equal its solo output.",
                note="The 2^32 seeds are covered through the iteration orders they induce (the only channel by which the seed can "
                     "reach doctrans); call histories are depth-bounded because process state cannot be canonicalised soundly."),
    "C13": dict(level="model_checking", engine="E2", design="5/C13",
                technique="explicit-state BFS to closure over the states of one shared IR / AST object under every emit and parse call",
                text="Starting from each initial object (IRs with and without return entry, carried body, defaults, kwargs; ASTs "
                     "of a function, a method, classes and an argparse function) the state graph of the shared object under "
                     "all emit / parse calls is explored breadth-first to closure; every transition runs the real call on a "
                     "deep copy of the state and its output must equal that of the same call on a fresh initial object. "
                     "Closure makes the verdict hold for call sequences of any length, not only the <=4 the property asks for. Because "
                     "copying hides aliasing with state inside the library, every call sequence of length 2 (thorough 3) over the 25 "
                     "operations plus 5 foreign calls is also run on one uncopied object in a forked child and compared with the solo "
                     "outputs; and for sync the bytes one target ends up with must not depend on which other targets are in the run.",
                note="Trusted: copy.deepcopy, the canonical serialisation (parameter dicts, return entry, body statements via "
                     "ast.dump, ancestry attributes). No separate model: transitions are implementation executions."),
    "C14": dict(level="exploration", engine="E1", design="5/C14",
                technique="bounded-exhaustive enumeration of (input module, output module, address pairs, wrap, eval, API/CLI) calls judged by an independent ast-based masked-tree oracle",
                text="All 6 orders of the input module x all 6 orders of the output module x every addressable input location x every "
                     "addressable output location (plus non-resolving addresses), 1..3 pairs per call, with / without wrap template, "
                     "eval on / off, through the API and the command line are executed on real files. Oracle: input bytes identical; "
                     "output parses; with the addressed nodes (and their own default slot) masked the tree is unchanged; each "
                     "addressed node carries the expected annotation; unresolvable addresses raise and leave the output untouched.",
                note="Trusted: CPython ast; the independent resolver of mc/props/c15.py."),
    "C15": dict(level="exploration", engine="E1", design="5/C15",
                technique="bounded-exhaustive enumeration of modules x dotted paths against an independent resolver (node identity)",
                text="Every module built from an ordered selection of <=3 (thorough <=4) distinct items out of 11 templates whose simple "
                     "names collide across scopes (incl. locals and nested defs inside a coroutine, a method and a function), and "
                     "every one of the 3615 paths of length <=3 over the 15-name pool, is resolved by "
                     "find_in_ast on the tree returned by ast_parse and compared by node identity with an independent resolver; for "
                     "every existing path RewriteAtQuery replaces a marker node and the result is compared with an independent "
                     "replacement of exactly that node.",
                note="Trusted: CPython ast. Bounded by the item templates (nesting depth 3, functions before and after classes)."),
    "C16": dict(level="exploration", engine="E1", design="5/C16",
                technique="bounded-exhaustive enumeration of function bodies x interfaces x routes, statement lists compared via ast.dump",
                text="Every body (all sequences of <=2 quick / <=3 thorough distinct statements from 10 templates x 4 final statements) "
                     "on each of 6 interfaces is carried through function->function, method->method, argparse->argparse (extra "
                     "statements after / between the add_argument calls), function->class __call__ and class __call__->method with "
                     "the real parse / emit functions; the non-docstring statements must be identical "
                     "in order and multiplicity; for __call__ the reference is an independent scope-aware rewriter of parameter "
                     "references.",
                note="Trusted: CPython ast / unparse."),
    "C17": dict(level="exploration", engine="E1", design="5/C17",
                technique="bounded-exhaustive input-space enumeration (every prose x value x type x phrase x removal tuple)",
                text="Every tuple of the stated prose/value/type/phrase/removal alphabets is pushed through the real "
                     "set_default_doc -> extract_default / interpolate_defaults codec and compared with the value that "
                     "went in (value and Python type) and the prose that surrounded it; the space is enumerated "
                     "completely, so within the alphabets there is no unvisited input.",
                note="Trusted: CPython ast/str semantics. Domain restrictions for bare (unquoted) strings are listed in "
                     "the evidence assumptions. Bounded by the alphabets (thorough: all ints in [-20,20], a float grid, "
                     "all strings of length <=3 over 8 characters)."),
    "C18": dict(level="exploration", engine="E5", design="5/C18",
                technique="configuration sweep: one fresh interpreter per DOCTRANS_LINE_LENGTH value x exhaustive width-relative and absolute-length inputs",
                text="For every width of the sweep (quick: unset + 7 values; thorough: unset + every integer 40..200) a fresh "
                     "interpreter emits 81 interface descriptions - summaries, prose, types and return prose of length L-1, L, L+1, "
                     "2L+3, 5L, plus texts of 41 absolute lengths (with a trailing default sentence, with dashes) so that sweeping "
                     "L moves the line break across every position - with each of 7 emitter kinds, word_wrap on and off, parses "
                     "both artefacts and compares the projections field by field.",
                note="Trusted: textwrap. Types are compared modulo whitespace outside string literals, prose modulo runs of whitespace."),
    "C19": dict(level="exploration", engine="E1", design="5/C19",
                technique="bounded-exhaustive enumeration of gen invocations, output judged by ast / exec / inspect",
                text="Every combination of mapping (ordered selections of 1..2 quick / 1..3 thorough entries from class+__init__ plain / "
                     "annotated, function plain / annotated) x output type x name template x prepend shape x imports-from-file shape is "
                     "run through the real gen in a fresh directory (the input module always under the same import name); the written "
                     "module must parse, hold exactly the template-named definitions in mapping order, end in the matching __all__, "
                     "carry prepend / imports once and first, execute, and expose the source's interface; an existing output must be "
                     "refused and left untouched (command line).",
                note="Trusted: CPython import system, exec, inspect, argparse."),
    "C20": dict(level="fault_enumeration", engine="E4", design="5/C20",
                technique="exhaustive fault / crash-point injection at every write-path open (before open, after open, mid-write) and every conversion / rendering step, plus exhaustive argv-space enumeration",
                text="(a) ~590 argv vectors (option presence / validity x file existence for sync, sync_properties, gen) go through the "
                     "real entry point and are judged by an independent validator: rejected => usage error and unchanged directory "
                     "snapshot, accepted => no exception. (b) for each operation (sync over 48 project states quick / 72 thorough, "
                     "sync_properties, gen) a recording run lists the write-path opens and the conversion / rendering steps; then one "
                     "execution per fault point injects that single fault and every file must equal its pre-image or its fault-free "
                     "post-image.",
                note="builtins.open is wrapped only for paths under the sandbox directory; OS-level torn writes / power loss are out "
                     "of scope (the code never syncs)."),
}

PENDING = {}

ALL = ["C%02d" % i for i in range(1, 21)]


def main():
    checks = []
    for pid in ALL:
        if pid not in CHECKS:
            continue
        c = CHECKS[pid]
        checks.append({
            "property_id": pid,
            "quick_cmd": "./vcheck %s --tier quick" % pid,
            "thorough_cmd": "./vcheck %s --tier thorough" % pid,
            "evidence_file": "/verif/evidence/%s.json" % pid,
            "replay_cmd_template": "./vcheck %s --replay {path}" % pid,
            "engine": c["engine"],
            "level_claimed": {"category": c["level"], "text": c["text"], "design_ref": "DESIGN.md section " + c["design"]},
            "level_note": c["note"],
            "technique": c["technique"],
        })
    na = [{"property_id": pid, "reason": PENDING.get(pid, "check not built yet in this revision of /verif (work in progress; see DESIGN.md section 10)")}
          for pid in ALL if pid not in CHECKS]
    man = {
        "version": 1,
        "setup_cmd": "./vcheck selftest",
        "hooks": {
            "guard": "DOCTRANS_VERIF",
            "enable": "no source hooks: doctrans is pure Python and is imported from /repo's working tree by every check; "
                      "instrumentation is harness-side (module-attribute spies, builtins.open wrapper). DOCTRANS_VERIF=1 is "
                      "exported by ./vcheck but nothing in /repo reads it.",
            "baseline_off_cmd": "cd /repo && /venv/bin/python -m pytest -ra -q -p no:cacheprovider --timeout=900 --continue-on-collection-errors",
            "source_commits": [],
            "add_only": True,
        },
        "engines": [
            {"name": "E1", "path": "mc/core.py", "kind_free_text": E1,
             "serves_properties": [p for p in ALL if CHECKS.get(p, {}).get("engine") == "E1"]},
            {"name": "E2", "path": "mc/props/c05.py, mc/props/c10.py, mc/props/c13.py, mc/props/c12.py (histories)", "kind_free_text": "explicit-state BFS to closure over the real transition functions (conversion / project-file / shared-object graphs)",
             "serves_properties": [p for p in ALL if CHECKS.get(p, {}).get("engine") == "E2"]},
            {"name": "E3", "path": "models/SyncProtocol.tla + mc/tlc_replay.py", "kind_free_text": "TLC explicit-state model of sync; every model transition replayed against the implementation",
             "serves_properties": [p for p in ALL if CHECKS.get(p, {}).get("engine") == "E3"]},
            {"name": "E4", "path": "mc/faults.py", "kind_free_text": "exhaustive fault / crash-point enumeration over the write path (builtins.open wrapper)",
             "serves_properties": [p for p in ALL if CHECKS.get(p, {}).get("engine") == "E4"]},
            {"name": "E5", "path": "mc/props/c12.py + mc/c12_battery.py, mc/props/c18.py + mc/c18_worker.py, mc/props/c07.py (seed sweep)", "kind_free_text": "configuration sweep in fresh interpreters (hash seeds covering all k! set orders, DOCTRANS_LINE_LENGTH range)",
             "serves_properties": [p for p in ALL if CHECKS.get(p, {}).get("engine") == "E5"]},
        ],
        "checks": checks,
        "not_applicable": na,
        "notes": "Known genuine defects are listed in known_findings.json with exact extensions in known/<id>.json; fix: commits in /repo are listed there under 'fixed'.",
    }
    with open(os.path.join(HERE, "MANIFEST.json"), "w") as f:
        json.dump(man, f, indent=1)
    print("MANIFEST.json: %d checks, %d not claimed" % (len(checks), len(na)))


if __name__ == "__main__":
    main()
