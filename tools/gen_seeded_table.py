#!/usr/bin/env python3
"""Regenerates the table of DESIGN.md section 11 from seeded/*/meta.json (prints markdown to stdout)."""
import glob
import json
import os
import re

HOME = os.path.dirname(os.path.dirname(os.path.abspath(__file__)))


def status(note):
    n = note.lower()
    if "added after reading the description" in n:
        return "alphabet extended after reading the description"
    if "missed" in n or "initially not reachable" in n:
        return "missed at first"
    return "first run"


def key(path):
    sid = os.path.basename(os.path.dirname(path))
    m = re.match(r"C(\d+)-(w(\d)m(\d)|m(\d)|own(\d))", sid)
    wave = 1 if m.group(5) else (int(m.group(3)) if m.group(3) else 9)
    return (int(m.group(1)), wave, sid)


rows = []
counts = {}
for f in sorted(glob.glob(os.path.join(HOME, "seeded", "*", "meta.json")), key=key):
    m = json.load(open(f))
    st = status(m.get("detection_note", ""))
    counts[st] = counts.get(st, 0) + 1
    rows.append("| %s | %s | %s | %s |" % (m["id"], ", ".join(m.get("detected_by") or ["-"]),
                                        (m.get("summary") or "").replace("|", "/").replace("\n", " ")[:140], st))
print("| seeded | detected by (quick tier) | change | status of the first attempt |")
print("|---|---|---|---|")
print("\n".join(rows))
print()
print("<!-- %s -->" % json.dumps(counts, sort_keys=True))
