#!/usr/bin/env python3
"""usage: keep_mutant.py <src dir> <seed id> <caught_by comma list or 'MISSED'> <note>"""
import json, os, shutil, sys
src, sid, caught, note = sys.argv[1:5]
dst = os.path.join('/verif/seeded', sid)
os.makedirs(dst, exist_ok=True)
for f in ('patch.diff', 'demo.py'):
    shutil.copy(os.path.join(src, f), os.path.join(dst, f))
meta = json.load(open(os.path.join(src, 'meta.json')))
meta.update({
    "id": sid,
    "breaks_property": meta.get("property"),
    "needs_to_manifest": meta.get("needs"),
    "confirmed": "applied to a clean /repo working tree: pinned suite 154/154 with the patch (tools/run_baseline.sh); demo.py exits 1 with the patch and 0 without (tools/try_mutant.sh)",
    "detected_by": [] if caught == 'MISSED' else caught.split(','),
    "detection_note": note,
})
json.dump(meta, open(os.path.join(dst, 'meta.json'), 'w'), indent=1)
print("kept", dst)
