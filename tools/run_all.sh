#!/bin/bash
# Run every check registered in MANIFEST.json (quick or thorough) and summarise exit codes.
TIER="${1:-quick}"
cd /verif
for P in $(python3 -c "import json; print(' '.join(c['property_id'] for c in json.load(open('MANIFEST.json'))['checks']))"); do
  s=$(date +%s)
  ./vcheck $P --tier $TIER > /tmp/all.$P.out 2>&1; rc=$?
  e=$(date +%s)
  echo "$P rc=$rc $((e-s))s $(grep -c '^VIOLATION' /tmp/all.$P.out) violations; $(tail -1 /tmp/all.$P.out)"
done
