#!/bin/bash
# Run the repository's pinned test-suite (guard OFF) and compare with BASELINE.json's stable_pass list.
# usage: tools/run_baseline.sh [repo_dir]
REPO="${1:-/repo}"
OUT="$(mktemp /tmp/junit.XXXXXX.xml)"
unset DOCTRANS_VERIF DOCTRANS_LINE_LENGTH
(cd "$REPO" && PYTHONDONTWRITEBYTECODE=1 /venv/bin/python -m pytest -ra -q -p no:cacheprovider --timeout=900 --continue-on-collection-errors --junitxml="$OUT" >/dev/null 2>&1)
/venv/bin/python - "$OUT" <<'PY'
import json, sys, xml.etree.ElementTree as ET
base = json.load(open('/root/.vp/BASELINE.json'))
want = set(base['stable_pass'])
t = ET.parse(sys.argv[1]).getroot()
passed = set()
for tc in t.iter('testcase'):
    if not any(c.tag in ('failure', 'error', 'skipped') for c in tc):
        passed.add('%s::%s' % (tc.get('classname'), tc.get('name')))
missing = sorted(want - passed)
print('baseline stable tests passing: %d/%d' % (len(want & passed), len(want)))
for m in missing:
    print('  NOT PASSING:', m)
sys.exit(1 if missing else 0)
PY
rc=$?
rm -f "$OUT"
exit $rc
