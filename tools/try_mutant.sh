#!/bin/bash
# usage: tools/try_mutant.sh <dir with patch.diff demo.py> <tier> <PID> [PID...]
# Applies the patch to /repo, confirms suite still passes and demo fails, runs the named checks, reverts.
D="$1"; TIER="$2"; shift 2
cd /repo || exit 9
if [ -n "$(git status --porcelain --untracked-files=no)" ]; then echo "repo dirty"; exit 9; fi
if ! git apply --check "$D/patch.diff" 2>/dev/null; then
  if ! git apply -3 "$D/patch.diff" 2>/dev/null; then echo "PATCH DOES NOT APPLY"; git reset -q --hard HEAD; exit 8; fi
  git reset -q
else
  git apply "$D/patch.diff"
fi
trap 'git -C /repo checkout -- . ' EXIT
echo "--- suite with patch:"; /verif/tools/run_baseline.sh | tail -3
echo "--- demo with patch:"; (cd /repo && PYTHONDONTWRITEBYTECODE=1 PYTHONPATH=/repo /venv/bin/python "$D/demo.py" >/tmp/demo.out 2>&1; echo "exit=$?"; tail -3 /tmp/demo.out)
for P in "$@"; do
  echo "--- check $P ($TIER) with patch:"
  (cd /verif && ./vcheck $P --tier $TIER > /tmp/vcheck.$P.out 2>&1; echo "exit=$?"; grep -c '^VIOLATION' /tmp/vcheck.$P.out; grep -A2 '^VIOLATION' /tmp/vcheck.$P.out | head -9; tail -1 /tmp/vcheck.$P.out)
done
git -C /repo checkout -- .
echo "--- demo without patch:"; (cd /repo && PYTHONDONTWRITEBYTECODE=1 PYTHONPATH=/repo /venv/bin/python "$D/demo.py" >/tmp/demo.out 2>&1; echo "exit=$?")
rm -rf /verif/replays/*
