#!/bin/bash
# Re-apply every seeded change to /repo (one at a time), run the quick tier of the checks recorded as detecting it,
# and report whether each still raises a VIOLATION.  /repo is restored after every change.  Developer tool.
cd /repo || exit 9
if [ -n "$(git status --porcelain --untracked-files=no)" ]; then echo "repo dirty"; exit 9; fi
FAIL=0
for D in /verif/seeded/*/; do
  ID=$(basename "$D")
  [ -n "$1" ] && [[ "$ID" != $1* ]] && continue
  CHECKS=$(python3 -c "import json; print(' '.join(json.load(open('$D/meta.json'))['detected_by']))")
  if ! git apply --check "$D/patch.diff" 2>/dev/null; then echo "$ID: PATCH DOES NOT APPLY"; FAIL=1; continue; fi
  git apply "$D/patch.diff"
  RES=""
  for P in $CHECKS; do
    (cd /verif && ./vcheck $P --tier quick > /tmp/vs.$P.out 2>&1); rc=$?
    n=$(grep -c '^VIOLATION' /tmp/vs.$P.out)
    RES="$RES $P:rc=$rc/viol=$n"
    if [ "$rc" != "1" ] || [ "$n" = "0" ]; then FAIL=1; RES="$RES(MISSED)"; fi
  done
  git checkout -- .
  echo "$ID:$RES"
done
rm -rf /verif/replays
exit $FAIL
